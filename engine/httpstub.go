package main

import (
	"go/types"
	"net/url"
	"sort"

	"golang.org/x/tools/go/ssa"
)

// ---------------------------------------------------------------------------
// Environment model for net/url and net/http plumbing (C14). The code under test builds a URL,
// sets query parameters, sends a request through a RoundTripper owned by the harness and reads
// the response. None of the parsing/escaping/header canonicalisation is the subject of a
// property, so it is modelled at the level of the data it carries:
//   url.Parse(s)            a URL whose Path is s (s is assumed to be a valid URL without query)
//   Values.Encode()         an opaque string atom standing for a snapshot of the Values
//   URL.Query()             a fresh copy of the snapshot behind RawQuery (empty for "")
//   URL.String()            an opaque string atom standing for a snapshot of the URL
//   http.NewRequest(m,u,_)  a Request with Method m, the URL behind the atom, an empty Header
//   http.Error(w,msg,code)  w.WriteHeader(code); w.Write(msg)
//   Header.Set              not modelled (no-op)
//   io.ReadAll / io.Copy    Read loops over the real reader
// String atoms are two-"byte" strings whose second element is a 64-bit number; they compare
// equal exactly when they denote the same snapshot.
// ---------------------------------------------------------------------------

type httpModel struct {
	values []*MapVal    // snapshots made by Values.Encode
	urls   []*StructVal // snapshots made by URL.String
}

func (e *Engine) hm() *httpModel {
	if e.http == nil {
		e.http = &httpModel{}
	}
	return e.http
}

func structField(t types.Type, name string) int {
	st := t.Underlying().(*types.Struct)
	for i := 0; i < st.NumFields(); i++ {
		if st.Field(i).Name() == name {
			return i
		}
	}
	panic(engineErr("field %s not found in %s", name, t))
}

func (e *Engine) libType(pkg, name string) types.Type {
	p := e.prog.ImportedPackage(pkg)
	if p == nil {
		panic(engineErr("package %s is not loaded", pkg))
	}
	return p.Type(name).Type()
}

func (e *Engine) libTypeLocal(name string) types.Type {
	for _, p := range e.prog.AllPackages() {
		if p.Pkg.Path() == e.pkgPath {
			if t := p.Type(name); t != nil {
				return t.Type()
			}
		}
	}
	panic(engineErr("type %s not found in %s", name, e.pkgPath))
}

func (e *Engine) atom(tag byte, id int) *StrVal {
	return &StrVal{B: []*Term{e.tb.BVConst(uint64(tag), 8), e.tb.BVConst(uint64(id), 64)}}
}

func atomOf(v Value, tag byte) (int, bool) {
	s, ok := v.(*StrVal)
	if !ok || len(s.B) != 2 || !s.B[0].IsConst() || byte(s.B[0].U) != tag || !s.B[1].IsConst() || s.B[1].Sort.W != 64 {
		return 0, false
	}
	return int(s.B[1].U), true
}

func (e *Engine) newLibMap(t types.Type) *MapVal {
	mt := t.Underlying().(*types.Map)
	e.mapN++
	m := &MapVal{ID: e.mapN, KeyT: mt.Key(), ElemT: mt.Elem()}
	if e.trackCells {
		e.allMaps = append(e.allMaps, m)
	}
	return m
}

func (e *Engine) copyMap(fr *frame, src *MapVal, t types.Type) *MapVal {
	m := e.newLibMap(t)
	if src == nil {
		return m
	}
	for _, en := range e.mapSnapshot(fr, src) {
		if en.Deleted {
			continue
		}
		m.Entries = append(m.Entries, &mapEntry{K: en.K, V: e.copyVal(en.V)})
	}
	return m
}

func (e *Engine) strSlice(ss ...Value) SliceVal {
	arr := &ArrayVal{E: make([]*Cell, len(ss))}
	for i, s := range ss {
		arr.E[i] = e.newCell(s)
	}
	return SliceVal{Arr: arr, Len: len(ss), Cap: len(ss)}
}

func (e *Engine) httpIntercept(fr *frame, fn *ssa.Function, name string, args []Value) (Value, bool) {
	switch name {
	case "net/url.Parse":
		e.stub("net/url.Parse (a URL whose Path is the given text; the text is assumed to be a valid URL without query)")
		ut := e.libType("net/url", "URL")
		st := e.zero(ut).(*StructVal)
		st.F[structField(ut, "Path")].V = args[0]
		return TupleVal{PtrVal{C: e.newObjCell(st, ut, "url.Parse")}, IfaceVal{}}, true
	case "(*net/url.URL).Query":
		e.stub("net/url: URL.Query / Values.Encode (opaque query string standing for the Values it was encoded from)")
		ut := e.libType("net/url", "URL")
		vt := e.libType("net/url", "Values")
		c := args[0].(PtrVal).C
		if c == nil {
			e.progPanicAt(fr, "nil pointer dereference (URL.Query)")
		}
		rq := e.load(fr, c.V.(*StructVal).F[structField(ut, "RawQuery")])
		if id, ok := atomOf(rq, '?'); ok {
			return e.copyMap(fr, e.hm().values[id], vt), true
		}
		if s, ok := rq.(*StrVal); ok {
			// [encoded Values] followed by literal query text (e.g. "&name=" + name), or literal text alone:
			// the literal part is parsed by the real net/url.ParseQuery
			var m *MapVal
			rest := s.B
			if len(s.B) >= 2 {
				if id, ok := atomOf(&StrVal{B: s.B[:2]}, '?'); ok {
					m = e.copyMap(fr, e.hm().values[id], vt)
					rest = s.B[2:]
				}
			}
			if m == nil {
				m = e.newLibMap(vt)
			}
			txt, ok := (&StrVal{B: rest}).Concrete()
			if !ok {
				panic(engineErr("URL.Query: RawQuery has a symbolic literal part"))
			}
			parsed, _ := url.ParseQuery(txt)
			keys := make([]string, 0, len(parsed))
			for k := range parsed {
				keys = append(keys, k)
			}
			sort.Strings(keys)
			for _, k := range keys {
				var vals []Value
				if en := e.mapFind(fr, m, e.strConst(k)); en != nil {
					old := en.V.(SliceVal)
					for i := 0; i < old.Len; i++ {
						vals = append(vals, e.load(fr, old.Arr.E[old.Off+i]))
					}
				}
				for _, v := range parsed[k] {
					vals = append(vals, e.strConst(v))
				}
				e.mapUpdate(fr, m, e.strConst(k), e.strSlice(vals...))
			}
			return m, true
		}
		panic(engineErr("URL.Query: RawQuery is not a modelled query string"))
	case "(net/url.Values).Encode":
		e.stub("net/url: URL.Query / Values.Encode (opaque query string standing for the Values it was encoded from)")
		vt := e.libType("net/url", "Values")
		m, _ := args[0].(*MapVal)
		h := e.hm()
		h.values = append(h.values, e.copyMap(fr, m, vt))
		return e.atom('?', len(h.values)-1), true
	case "(net/url.Values).Get":
		m, _ := args[0].(*MapVal)
		if m == nil {
			return e.strConst(""), true
		}
		en := e.mapFind(fr, m, args[1])
		if en == nil {
			return e.strConst(""), true
		}
		sl := en.V.(SliceVal)
		if sl.Len == 0 {
			return e.strConst(""), true
		}
		return e.load(fr, sl.Arr.E[sl.Off]), true
	case "(net/url.Values).Del":
		if m, _ := args[0].(*MapVal); m != nil {
			e.mapDelete(fr, m, args[1])
		}
		return nil, true
	case "(net/url.Values).Has":
		m, _ := args[0].(*MapVal)
		if m == nil {
			return e.tb.Bool(false), true
		}
		return e.tb.Bool(e.mapFind(fr, m, args[1]) != nil), true
	case "(net/url.Values).Add":
		m, _ := args[0].(*MapVal)
		if m == nil {
			e.progPanicAt(fr, "assignment to entry in nil map")
		}
		var vals []Value
		if en := e.mapFind(fr, m, args[1]); en != nil {
			old := en.V.(SliceVal)
			for i := 0; i < old.Len; i++ {
				vals = append(vals, e.load(fr, old.Arr.E[old.Off+i]))
			}
		}
		e.mapUpdate(fr, m, args[1], e.strSlice(append(vals, args[2])...))
		return nil, true
	case "(net/url.Values).Set":
		m, _ := args[0].(*MapVal)
		if m == nil {
			e.progPanicAt(fr, "assignment to entry in nil map")
		}
		e.mapUpdate(fr, m, args[1], e.strSlice(args[2]))
		return nil, true
	case "(*net/url.URL).String":
		e.stub("net/url: URL.String (opaque text standing for the URL value)")
		c := args[0].(PtrVal).C
		if c == nil {
			e.progPanicAt(fr, "nil pointer dereference (URL.String)")
		}
		h := e.hm()
		h.urls = append(h.urls, e.copyVal(e.load(fr, c)).(*StructVal))
		return e.atom('U', len(h.urls)-1), true
	case "net/http.NewRequest":
		e.stub("net/http.NewRequest (Request with the given method, the URL behind the text, empty Header)")
		id, ok := atomOf(args[1], 'U')
		if !ok {
			panic(engineErr("http.NewRequest: URL text was not produced by URL.String"))
		}
		ut := e.libType("net/url", "URL")
		rt := e.libType("net/http", "Request")
		ht := e.libType("net/http", "Header")
		u := e.copyVal(e.hm().urls[id]).(*StructVal)
		st := e.zero(rt).(*StructVal)
		st.F[structField(rt, "Method")].V = args[0]
		st.F[structField(rt, "URL")].V = PtrVal{C: e.newObjCell(u, ut, "http.NewRequest.URL")}
		st.F[structField(rt, "Header")].V = e.newLibMap(ht)
		return TupleVal{PtrVal{C: e.newObjCell(st, rt, "http.NewRequest")}, IfaceVal{}}, true
	case "(*net/http.Request).Context":
		rt := e.libType("net/http", "Request")
		c := args[0].(PtrVal).C
		if c == nil {
			e.progPanicAt(fr, "nil pointer dereference (Request.Context)")
		}
		ctx := e.load(fr, c.V.(*StructVal).F[structField(rt, "ctx")]).(IfaceVal)
		if ctx.T != nil {
			return ctx, true
		}
		bg := e.prog.ImportedPackage("context").Func("Background")
		return e.callFunc(fr, &FuncVal{Fn: bg}, nil), true
	case "(net/http.HandlerFunc).ServeHTTP":
		f, _ := args[0].(*FuncVal)
		return e.callFunc(fr, f, args[1:]), true
	case "net/http.Error":
		e.stub("net/http.Error (WriteHeader(code) then Write(message); headers not modelled)")
		w := args[0].(IfaceVal)
		e.invokeByName(fr, w, "WriteHeader", []Value{args[2]})
		msg := args[1].(*StrVal)
		arr := &ArrayVal{E: make([]*Cell, len(msg.B))}
		for i, b := range msg.B {
			arr.E[i] = e.newCell(b)
		}
		e.invokeByName(fr, w, "Write", []Value{SliceVal{Arr: arr, Len: len(arr.E), Cap: len(arr.E)}})
		return nil, true
	case "(net/http.Header).Set", "(net/http.Header).Add", "(net/http.Header).Del":
		e.stub("net/http.Header.Set/Add/Del (headers not modelled)")
		return nil, true
	case "io.ReadAll", "io.Copy":
		e.stub("io.ReadAll / io.Copy (Read loop with a 4-byte buffer over the real reader)")
		var src, dst IfaceVal
		if name == "io.ReadAll" {
			src = args[0].(IfaceVal)
		} else {
			dst, src = args[0].(IfaceVal), args[1].(IfaceVal)
		}
		var out []*Cell
		total := 0
		var rerr IfaceVal
		for round := 0; ; round++ {
			if round > 256 {
				panic(pathEnd{kind: "unwind", msg: "io.ReadAll/io.Copy: more than 256 reads"})
			}
			arr := &ArrayVal{E: make([]*Cell, 4)}
			for i := range arr.E {
				arr.E[i] = e.newCell(e.tb.BVConst(0, 8))
			}
			res := e.invokeByName(fr, src, "Read", []Value{SliceVal{Arr: arr, Len: 4, Cap: 4}}).(TupleVal)
			n := res[0].(*Term)
			if !n.IsConst() {
				panic(engineErr("io.ReadAll/io.Copy: symbolic read length"))
			}
			k := int(n.U)
			total += k
			if name == "io.ReadAll" {
				out = append(out, arr.E[:k]...)
			} else if k > 0 && dst.T != nil && dst.T.String() != "io.discard" {
				wres := e.invokeByName(fr, dst, "Write", []Value{SliceVal{Arr: arr, Len: k, Cap: 4}}).(TupleVal)
				if werr := wres[1].(IfaceVal); werr.T != nil {
					rerr = werr
					break
				}
			}
			if er := res[1].(IfaceVal); er.T != nil {
				if !e.isEOF(fr, er) {
					rerr = er
				}
				break
			}
		}
		if name == "io.ReadAll" {
			return TupleVal{SliceVal{Arr: &ArrayVal{E: out}, Len: len(out), Cap: len(out)}, rerr}, true
		}
		return TupleVal{e.tb.BVConst(uint64(total), 64), rerr}, true
	}
	return nil, false
}

// isEOF: is the error value identical to io.EOF
func (e *Engine) isEOF(fr *frame, er IfaceVal) bool {
	g := e.prog.ImportedPackage("io").Var("EOF")
	c := e.globalCell(g)
	eof, _ := e.load(fr, c).(IfaceVal)
	t := e.equal(er, eof)
	return e.branch(t)
}
