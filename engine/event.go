package main

// Event mode (L2): thread bodies are executed symbolically one thread at a time. Every access
// to shared mutable state becomes a micro-operation of an atomic block; values read from shared
// state are fresh placeholders (shape forks for pointers/interfaces). The per-thread result is
// a loop-free automaton (tree of blocks) that bmc.go composes with a symbolic scheduler.

import (
	"fmt"
	"go/types"
	"os"
	"sort"
	"strings"

	"golang.org/x/tools/go/ssa"
)

type SharedInfo struct {
	Name string
}

// ---------------------------------------------------------------------------
// shapes: the non-scalar structure of a value; scalar leaves are SMT terms
// ---------------------------------------------------------------------------

type Shape struct {
	Kind     string
	Sort     Sort
	N        int
	Obj      string
	Off, Cap int
	T        types.Type
	Sub      []*Shape
	Fn       *ssa.Function
	key      string
}

func (s *Shape) Key() string {
	if s.key != "" {
		return s.key
	}
	var sb strings.Builder
	sb.WriteString(s.Kind)
	switch s.Kind {
	case "scalar":
		sb.WriteString(":" + s.Sort.String())
	case "str":
		fmt.Fprintf(&sb, ":%d", s.N)
	case "ptr", "map", "chan":
		sb.WriteString(":" + s.Obj)
	case "slice":
		fmt.Fprintf(&sb, ":%s:%d:%d:%d", s.Obj, s.Off, s.N, s.Cap)
	case "iface":
		sb.WriteString(":" + s.T.String())
	case "func":
		sb.WriteString(":" + s.Fn.String())
	}
	if len(s.Sub) > 0 {
		sb.WriteByte('(')
		for i, x := range s.Sub {
			if i > 0 {
				sb.WriteByte(',')
			}
			sb.WriteString(x.Key())
		}
		sb.WriteByte(')')
	}
	s.key = sb.String()
	return s.key
}

// leafSorts lists the sorts of the scalar leaves of a shape in order.
func (s *Shape) leafSorts(out []Sort) []Sort {
	switch s.Kind {
	case "scalar":
		return append(out, s.Sort)
	case "str":
		for i := 0; i < s.N; i++ {
			out = append(out, BV(8))
		}
		return out
	}
	for _, x := range s.Sub {
		out = x.leafSorts(out)
	}
	return out
}

// ---------------------------------------------------------------------------
// registry: facts about shared state accumulated over explorations (fixpoint)
// ---------------------------------------------------------------------------

type mapKeyRec struct {
	key string
	val Value
}

type l2Registry struct {
	mutable    map[string]bool
	shapes     map[string][]*Shape
	shapeIdx   map[string]map[string]int
	mapKeys    map[string][]mapKeyRec
	mapKeyIx   map[string]map[string]int
	objType    map[string]types.Type
	locKind    map[string]string          // cell | map | mutex | chan
	prot       map[string]map[string]bool // location -> mutexes held at every access seen so far (nil: none seen)
	writers    map[string]map[int]bool    // location -> threads that write it
	syncMap    map[string]bool            // maps that model a sync.Map (operations are atomic, never racy)
	shapeGen   map[string]map[string]int  // value-chain generation of each shape (see noteGenWrite)
	maxWrites  map[string]map[int]int     // location -> thread -> max stores on one path
	pubAtSpawn map[string]bool            // objects captured by a goroutine and written afterwards: shared from the go statement on
	noFuse     bool
	changed    bool
	changes    []string
}

func newRegistry() *l2Registry {
	return &l2Registry{mutable: map[string]bool{}, shapes: map[string][]*Shape{}, shapeIdx: map[string]map[string]int{},
		mapKeys: map[string][]mapKeyRec{}, mapKeyIx: map[string]map[string]int{}, objType: map[string]types.Type{}, locKind: map[string]string{},
		prot: map[string]map[string]bool{}, writers: map[string]map[int]bool{}, syncMap: map[string]bool{}, shapeGen: map[string]map[string]int{}, maxWrites: map[string]map[int]int{}, pubAtSpawn: map[string]bool{}}
}

func (r *l2Registry) note(what string) {
	r.changed = true
	if len(r.changes) < 50 {
		r.changes = append(r.changes, what)
	}
}

func (r *l2Registry) addShape(loc string, s *Shape) int {
	m := r.shapeIdx[loc]
	if m == nil {
		m = map[string]int{}
		r.shapeIdx[loc] = m
	}
	if i, ok := m[s.Key()]; ok {
		return i
	}
	m[s.Key()] = len(r.shapes[loc])
	r.shapes[loc] = append(r.shapes[loc], s)
	r.note("shape " + loc + " <- " + s.Key())
	return len(r.shapes[loc]) - 1
}

func (r *l2Registry) addMapKey(m string, key string, v Value) int {
	ix := r.mapKeyIx[m]
	if ix == nil {
		ix = map[string]int{}
		r.mapKeyIx[m] = ix
	}
	if i, ok := ix[key]; ok {
		return i
	}
	ix[key] = len(r.mapKeys[m])
	r.mapKeys[m] = append(r.mapKeys[m], mapKeyRec{key, v})
	r.note("mapkey " + m + " <- " + key)
	return len(r.mapKeys[m]) - 1
}

func (r *l2Registry) addWriter(loc string, tid int) {
	w := r.writers[loc]
	if w == nil {
		w = map[int]bool{}
		r.writers[loc] = w
	}
	if !w[tid] {
		w[tid] = true
		r.note(fmt.Sprintf("writer of %s <- T%d", loc, tid))
	}
}

func isSelfOrDescendant(w, t int) bool {
	for w > 0 {
		if w == t {
			return true
		}
		w /= 100
	}
	return false
}

// localRead: the location is written only by this thread (or by goroutines it has not started
// yet), so the value it reads is its own last write (or the initial value): no event needed.
func (e *Engine) localRead(loc string, c *Cell) bool {
	ev := e.ev
	if ev.reg.noFuse || c.Shadow || ev.cur == nil || ev.cur.nSpawned > 0 {
		return false
	}
	for w := range ev.reg.writers[loc] {
		if !isSelfOrDescendant(w, ev.cur.id) {
			return false
		}
	}
	return true
}

func (r *l2Registry) setMutable(loc, kind string) {
	if !r.mutable[loc] {
		r.mutable[loc] = true
		r.locKind[loc] = kind
		r.note("mutable " + kind + " " + loc)
	}
}

// ---------------------------------------------------------------------------
// per-path event context
// ---------------------------------------------------------------------------

type microOp struct {
	Kind   string // load store mlookup mupdate mdelete mlen mnext lock unlock rlock runlock close recv spawn assert reach mark
	Loc    string
	KeyIx  int
	Shape  *Shape  // store/mupdate: shape of the stored value
	Leaves []*Term // store: leaf terms; load: leaf placeholders
	ShapeP *Term   // load: shape index placeholder (nil if the location has a single shape)
	ShapeI int     // load: chosen shape index on this path
	Res    *Term   // mlookup: found placeholder; mlen/mnext: result placeholder
	Atomic bool    // sync/atomic access
	Cond   *Term   // assert
	Label  string
	Child  int // spawn
	Pos    string
}

type blockRec struct {
	cache    map[string]Value  // values of locations already read/written inside this atomic block
	mcache   map[string]mapHit // map slots already looked up / updated inside this atomic block
	Tid      int
	Src, Dst string
	Ops      []microOp
	Guard    []*Term
	Terminal bool
}

type threadRec struct {
	id       int
	name     string
	parent   int
	spawnKey string
	dec      []byte
	phN      int
	guards   []*Term
	blk      *blockRec
	lastKey  string
	objN     map[string]int
	done     bool
	rootKey  string
	heldW    map[string]int
	heldR    map[string]int
	nSpawned int
	genRead  map[string]int
	nWrites  map[string]int
}

func (t *threadRec) key() string {
	return fmt.Sprintf("T%d[%s]%s", t.id, t.spawnKey, string(t.dec))
}

type threadDecl struct {
	name string
	fv   *FuncVal
}

type eventCtx struct {
	reg             *l2Registry
	setupMaxCell    int
	setupMaxMap     int
	setupMaxChan    int
	decls           []threadDecl
	finally         *FuncVal
	target          int // index of the declared thread explored on this path
	cur             *threadRec
	threads         []*threadRec
	blocks          []*blockRec
	atomic          int
	setupPC         []*Term
	active          bool
	byName          map[string]*Cell // shadow / published cells by name
	mapByName       map[string]*MapVal
	chanByName      map[string]*ChanVal
	children        int
	pendingChildren []pendingChild
	arrays          map[string]*ArrayVal
	setupSnap       map[int]Value
	setupKey        string
	setupClasses    []classRec
	options         map[string]bool
	setupMaps       map[int]*MapVal
	setupChans      map[int]*ChanVal
	setupSyncMaps   map[*Cell]*MapVal
	run             *l2Run
	fineGrained     bool
	setupCells      map[int]*Cell
	initVals        map[string]Value // initial value of mutable setup cells, captured lazily
}

type mapHit struct {
	found bool
	v     Value
}

type restartExploration struct{ why string }

// ---------------------------------------------------------------------------
// naming
// ---------------------------------------------------------------------------

func (e *Engine) cellName(c *Cell) (string, bool) {
	if c.Shared != nil {
		return c.Shared.Name, true
	}
	if e.ev != nil && c.ID <= e.ev.setupMaxCell {
		return fmt.Sprintf("S%d", c.ID), true
	}
	return "", false
}

func (e *Engine) isMutableCell(c *Cell) (string, bool) {
	if e.ev == nil || !e.ev.active {
		return "", false
	}
	n, ok := e.cellName(c)
	if !ok {
		return "", false
	}
	return n, e.ev.reg.mutable[n]
}

func (e *Engine) mapName(m *MapVal) (string, bool) {
	if m.Name != "" {
		return m.Name, true
	}
	if e.ev != nil && m.ID <= e.ev.setupMaxMap {
		return fmt.Sprintf("M%d", m.ID), true
	}
	return "", false
}

func (e *Engine) chanName(ch *ChanVal) (string, bool) {
	if ch.Name != "" {
		return ch.Name, true
	}
	if e.ev != nil && ch.ID <= e.ev.setupMaxChan {
		return fmt.Sprintf("C%d", ch.ID), true
	}
	return "", false
}

// origin names an object allocated by the current thread at an allocation site.
func (e *Engine) originName(site string) string {
	t := e.ev.cur
	if t.objN == nil {
		t.objN = map[string]int{}
	}
	k := t.objN[site]
	t.objN[site] = k + 1
	return fmt.Sprintf("T%d@%s#%d", t.id, site, k)
}

// ---------------------------------------------------------------------------
// flatten / rebuild
// ---------------------------------------------------------------------------

func (e *Engine) publishCellTree(c *Cell, name string, t types.Type) {
	if c.Shared != nil {
		return
	}
	if c.ID <= e.ev.setupMaxCell {
		return
	}
	c.Shared = &SharedInfo{Name: name}
	e.ev.byName[name] = c
	e.ev.reg.setMutable(name, "cell")
	switch v := c.V.(type) {
	case *StructVal:
		for i, f := range v.F {
			e.publishCellTree(f, fmt.Sprintf("%s.f%d", name, i), nil)
		}
	case *ArrayVal:
		for i, f := range v.E {
			e.publishCellTree(f, fmt.Sprintf("%s[%d]", name, i), nil)
		}
	default:
		// publishing an object publishes what it points to; its current content becomes the
		// initial content of the shared location (recorded as a store by the publishing block)
		sh, leaves := e.flatten(c.V)
		e.ev.reg.addWriter(name, e.ev.cur.id)
		e.emitOp(microOp{Kind: "store", Loc: name, Shape: sh, Leaves: leaves, ShapeI: e.ev.reg.addShape(name, sh), Pos: "publish"})
	}
}

func (e *Engine) flatten(v Value) (*Shape, []*Term) {
	switch x := v.(type) {
	case *Term:
		return &Shape{Kind: "scalar", Sort: x.Sort}, []*Term{x}
	case *StrVal:
		return &Shape{Kind: "str", N: len(x.B)}, append([]*Term{}, x.B...)
	case PtrVal:
		if x.C == nil {
			return &Shape{Kind: "nilptr"}, nil
		}
		n, ok := e.cellName(x.C)
		if !ok {
			if x.C.Origin == "" {
				panic(engineErr("event mode: pointer to an unnamed private location is published into shared state"))
			}
			n = x.C.Origin
			e.ev.reg.objType[n] = x.C.Type
			e.publishCellTree(x.C, n, x.C.Type)
		}
		return &Shape{Kind: "ptr", Obj: n}, nil
	case IfaceVal:
		if x.T == nil {
			return &Shape{Kind: "nil"}, nil
		}
		s, l := e.flatten(x.V)
		return &Shape{Kind: "iface", T: x.T, Sub: []*Shape{s}}, l
	case *StructVal:
		sh := &Shape{Kind: "struct"}
		var leaves []*Term
		for _, f := range x.F {
			s, l := e.flatten(f.V)
			sh.Sub = append(sh.Sub, s)
			leaves = append(leaves, l...)
		}
		return sh, leaves
	case *ArrayVal:
		sh := &Shape{Kind: "array"}
		var leaves []*Term
		for _, f := range x.E {
			s, l := e.flatten(f.V)
			sh.Sub = append(sh.Sub, s)
			leaves = append(leaves, l...)
		}
		return sh, leaves
	case SliceVal:
		if x.Arr == nil {
			return &Shape{Kind: "nilslice"}, nil
		}
		if x.Arr.Name == "" {
			if x.Arr.Origin == "" {
				panic(engineErr("event mode: slice of an unnamed array is published into shared state"))
			}
			x.Arr.Name = x.Arr.Origin
			e.ev.reg.objType[x.Arr.Name] = x.Arr.Type
			e.ev.arrByName()[x.Arr.Name] = x.Arr
			for i, c := range x.Arr.E {
				e.publishCellTree(c, fmt.Sprintf("%s[%d]", x.Arr.Name, i), nil)
			}
		}
		return &Shape{Kind: "slice", Obj: x.Arr.Name, Off: x.Off, N: x.Len, Cap: x.Cap}, nil
	case *MapVal:
		if x == nil {
			return &Shape{Kind: "nilmap"}, nil
		}
		n, ok := e.mapName(x)
		if !ok {
			if x.Origin == "" {
				panic(engineErr("event mode: unnamed map published"))
			}
			x.Name = x.Origin
			n = x.Name
			e.ev.mapByName[n] = x
			e.ev.reg.setMutable(n, "map")
			if len(x.Entries) > 0 {
				panic(engineErr("event mode: publishing a non-empty thread-created map is not modelled"))
			}
		}
		return &Shape{Kind: "map", Obj: n}, nil
	case *ChanVal:
		if x == nil {
			return &Shape{Kind: "nilchan"}, nil
		}
		n, ok := e.chanName(x)
		if !ok {
			if x.Origin == "" {
				panic(engineErr("event mode: unnamed channel published"))
			}
			x.Name = x.Origin
			n = x.Name
			e.ev.chanByName[n] = x
			e.ev.reg.setMutable(n, "chan")
			e.ev.reg.locKind[n] = "chan"
		}
		return &Shape{Kind: "chan", Obj: n}, nil
	case *FuncVal:
		if x == nil {
			return &Shape{Kind: "nilfunc"}, nil
		}
		if len(x.Bind) > 0 || x.Fn == nil {
			panic(engineErr("event mode: closure with bindings stored into shared mutable state is not modelled"))
		}
		return &Shape{Kind: "func", Fn: x.Fn}, nil
	case nil:
		return &Shape{Kind: "nil"}, nil
	}
	panic(engineErr("event mode: cannot flatten %T", v))
}

func (ev *eventCtx) arrByName() map[string]*ArrayVal {
	if ev.arrays == nil {
		ev.arrays = map[string]*ArrayVal{}
	}
	return ev.arrays
}

// cellByName returns the cell of a named shared location, creating a shadow object for
// objects allocated by other threads.
func (e *Engine) cellByName(name string) *Cell {
	if c, ok := e.ev.byName[name]; ok {
		return c
	}
	if strings.HasPrefix(name, "S") {
		var id int
		if _, err := fmt.Sscanf(name, "S%d", &id); err == nil {
			if c, ok := e.ev.setupCells[id]; ok {
				return c
			}
			panic(engineErr("event mode: setup cell %s not found", name))
		}
	}
	t, ok := e.ev.reg.objType[name]
	if !ok {
		panic(engineErr("event mode: no type recorded for shared object %s", name))
	}
	c := e.newCell(e.zero(t))
	c.Type = t
	e.markShadow(c, name)
	return c
}

func (e *Engine) markShadow(c *Cell, name string) {
	c.Shared = &SharedInfo{Name: name}
	c.Shadow = true
	e.ev.byName[name] = c
	switch v := c.V.(type) {
	case *StructVal:
		for i, f := range v.F {
			e.markShadow(f, fmt.Sprintf("%s.f%d", name, i))
		}
	case *ArrayVal:
		for i, f := range v.E {
			e.markShadow(f, fmt.Sprintf("%s[%d]", name, i))
		}
	}
}

func (e *Engine) rebuild(s *Shape, leaves []*Term, pos *int) Value {
	switch s.Kind {
	case "scalar":
		t := leaves[*pos]
		*pos++
		return t
	case "str":
		r := &StrVal{B: append([]*Term{}, leaves[*pos:*pos+s.N]...)}
		*pos += s.N
		return r
	case "nilptr":
		return PtrVal{}
	case "ptr":
		return PtrVal{C: e.cellByName(s.Obj)}
	case "nil":
		return IfaceVal{}
	case "iface":
		return IfaceVal{T: s.T, V: e.rebuild(s.Sub[0], leaves, pos)}
	case "struct":
		st := &StructVal{}
		for _, x := range s.Sub {
			st.F = append(st.F, e.newCell(e.rebuild(x, leaves, pos)))
		}
		return st
	case "array":
		st := &ArrayVal{}
		for _, x := range s.Sub {
			st.E = append(st.E, e.newCell(e.rebuild(x, leaves, pos)))
		}
		return st
	case "nilslice":
		return SliceVal{}
	case "slice":
		arr, ok := e.ev.arrByName()[s.Obj]
		if !ok {
			t, ok := e.ev.reg.objType[s.Obj]
			if !ok {
				panic(engineErr("event mode: no type for shared array %s", s.Obj))
			}
			arr = e.zero(t).(*ArrayVal)
			arr.Name = s.Obj
			e.ev.arrByName()[s.Obj] = arr
			for i, c := range arr.E {
				e.markShadow(c, fmt.Sprintf("%s[%d]", s.Obj, i))
			}
		}
		return SliceVal{Arr: arr, Off: s.Off, Len: s.N, Cap: s.Cap}
	case "nilmap":
		return (*MapVal)(nil)
	case "map":
		if m, ok := e.ev.mapByName[s.Obj]; ok {
			return m
		}
		e.mapN++
		m := &MapVal{ID: e.mapN, Name: s.Obj}
		e.ev.mapByName[s.Obj] = m
		return m
	case "nilchan":
		return (*ChanVal)(nil)
	case "chan":
		if c, ok := e.ev.chanByName[s.Obj]; ok {
			return c
		}
		e.chanN++
		c := &ChanVal{ID: e.chanN, Name: s.Obj}
		e.ev.chanByName[s.Obj] = c
		return c
	case "nilfunc":
		return (*FuncVal)(nil)
	case "func":
		return &FuncVal{Fn: s.Fn}
	}
	panic(engineErr("event mode: cannot rebuild shape %s", s.Kind))
}

// ---------------------------------------------------------------------------
// blocks
// ---------------------------------------------------------------------------

func (e *Engine) newPlaceholder(s Sort) *Term {
	t := e.ev.cur
	t.phN++
	return e.tb.Sym(fmt.Sprintf("ph!T%d!%s!%d!%s", t.id, t.spawnKey, t.phN, strings.ReplaceAll(s.String(), " ", "")), s)
}

// Blocks follow Lipton's reduction: right movers (lock acquisitions), both movers (accesses to
// locations that every access seen so far performs under a common mutex), at most one
// non-mover, then left movers (releases). Here: a block is R B* L or a single non-mover, or a
// harness-declared atomic section. The lockset facts live in the registry and are part of
// the fixpoint (a fusion decision that later turns out unjustified forces another iteration).
func (e *Engine) emitOp(op microOp) {
	t := e.ev.cur
	kind := e.moverKind(&op)
	if e.ev.atomic == 0 {
		switch kind {
		case 'R', 'N':
			e.closeBlock()
		}
	}
	if t.blk == nil {
		t.blk = &blockRec{Tid: t.id, Src: t.lastKey}
	}
	t.blk.Ops = append(t.blk.Ops, op)
	switch op.Kind {
	case "lock":
		t.heldW[op.Loc]++
	case "unlock":
		t.heldW[op.Loc]--
	case "rlock":
		t.heldR[op.Loc]++
	case "runlock":
		t.heldR[op.Loc]--
	}
	if e.ev.atomic == 0 && (kind == 'L' || kind == 'N') {
		e.closeBlock()
	}
}

func (e *Engine) moverKind(op *microOp) byte {
	t := e.ev.cur
	if t.heldW == nil {
		t.heldW, t.heldR = map[string]int{}, map[string]int{}
	}
	switch op.Kind {
	case "lock", "rlock":
		return 'R'
	case "unlock", "runlock":
		return 'L'
	case "load", "mlookup", "mlen", "mnext", "store", "mupdate", "mdelete":
		if op.Atomic || op.Pos == "publish" {
			if op.Pos == "publish" {
				return 'B'
			}
			return 'N'
		}
		write := op.Kind == "store" || op.Kind == "mupdate" || op.Kind == "mdelete"
		held := map[string]bool{}
		for m, n := range t.heldW {
			if n > 0 {
				held[m] = true
			}
		}
		if !write {
			for m, n := range t.heldR {
				if n > 0 {
					held[m] = true
				}
			}
		}
		reg := e.ev.reg
		cur, seen := reg.prot[op.Loc]
		if !seen {
			reg.prot[op.Loc] = held
			cur = held
		} else {
			for m := range cur {
				if !held[m] {
					delete(cur, m)
					reg.note("lockset of " + op.Loc + " lost " + m)
				}
			}
		}
		if len(cur) > 0 && !reg.noFuse {
			return 'B'
		}
		return 'N'
	}
	return 'N'
}

// closeBlock ends the block under construction (if any).
func (e *Engine) closeBlock() {
	t := e.ev.cur
	if t.blk == nil {
		return
	}
	n := 0
	for _, b := range e.ev.blocks {
		if b.Tid == t.id {
			n++
		}
	}
	t.blk.Dst = fmt.Sprintf("%s/%d", t.key(), n+1)
	t.blk.Guard = t.guards
	t.guards = nil
	t.lastKey = t.blk.Dst
	e.ev.blocks = append(e.ev.blocks, t.blk)
	t.blk = nil
}

// endBlock is called after a micro-operation was emitted; with reduction-based fusion the
// decision was already taken in emitOp, so this only closes a block when forced.
func (e *Engine) endBlock(force bool) {
	if force {
		e.closeBlock()
	}
}

// evGuard records a path-condition conjunct added while a thread runs.
func (e *Engine) evGuard(c *Term) {
	if e.ev != nil && e.ev.active && e.ev.cur != nil {
		e.ev.cur.guards = append(e.ev.cur.guards, c)
	}
}

func (e *Engine) evDecision(d bool) {
	if e.ev != nil && e.ev.active && e.ev.cur != nil {
		b := byte('0')
		if d {
			b = '1'
		}
		e.ev.cur.dec = append(e.ev.cur.dec, b)
	}
}

// ---------------------------------------------------------------------------
// memory events
// ---------------------------------------------------------------------------

func (e *Engine) initialShape(loc string, c *Cell) {
	if _, ok := e.ev.initVals[loc]; ok {
		return
	}
	e.ev.initVals[loc] = c.V
	if c.ID <= e.ev.setupMaxCell {
		if v, ok := e.ev.setupSnap[c.ID]; ok {
			sh, _ := e.flatten(v)
			e.ev.reg.addShape(loc, sh)
		}
	}
}

func (e *Engine) evLoad(fr *frame, c *Cell) Value {
	loc, _ := e.cellName(c)
	switch c.V.(type) {
	case *StructVal, *ArrayVal:
		// aggregates are trees of cells: load field-wise
		return e.loadAggregate(fr, c)
	}
	e.initialShape(loc, c)
	if e.localRead(loc, c) {
		return e.copyVal(c.V)
	}
	if b := e.ev.cur.blk; b != nil && b.cache != nil {
		if v, ok := b.cache[loc]; ok {
			return e.copyVal(v) // same atomic block: the location cannot have changed
		}
	}
	shapes := e.ev.reg.shapes[loc]
	if len(shapes) == 0 {
		panic(engineErr("event mode: load of %s with no known shape", loc))
	}
	op := microOp{Kind: "load", Loc: loc, Pos: e.posOf(fr)}
	si := 0
	if len(shapes) > 1 {
		op.ShapeP = e.newPlaceholder(BV(8))
		e.assume(e.tb.Cmp("<", IntTy{8, false}, op.ShapeP, e.tb.BVConst(uint64(len(shapes)), 8)))
		allowed := e.allowedShapes(loc, shapes)
		si = allowed[len(allowed)-1]
		chosen := false
		for _, i := range allowed[:len(allowed)-1] {
			if e.branch(e.tb.Eq(op.ShapeP, e.tb.BVConst(uint64(i), 8))) {
				si = i
				chosen = true
				break
			}
		}
		if !chosen {
			e.assume(e.tb.Eq(op.ShapeP, e.tb.BVConst(uint64(si), 8)))
		}
	}
	op.ShapeI = si
	sh := shapes[si]
	if os.Getenv("SYMGO_DEBUGSHAPES") != "" && len(shapes) > 1 {
		kinds := map[string]bool{}
		for _, x := range shapes {
			kinds[x.Kind] = true
		}
		if len(kinds) > 1 && (kinds["scalar"] || kinds["str"]) {
			fmt.Fprintf(os.Stderr, "MIXED shapes cfg=%s snap=%s cur=%s at %s:", e.ev.setupKey, e.describe(e.ev.setupSnap[c.ID]), e.describe(c.V), loc)
			for _, x := range shapes {
				fmt.Fprintf(os.Stderr, " %s", x.Key())
			}
			fmt.Fprintln(os.Stderr)
		}
	}
	e.noteGenRead(loc, sh)
	for _, s := range sh.leafSorts(nil) {
		op.Leaves = append(op.Leaves, e.newPlaceholder(s))
	}
	e.emitOp(op)
	pos := 0
	v := e.rebuild(sh, op.Leaves, &pos)
	e.cacheSet(loc, v)
	e.endBlock(false)
	return v
}

// cacheSet remembers the value of a location for the rest of the current atomic block.
func (e *Engine) cacheSet(loc string, v Value) {
	if b := e.ev.cur.blk; b != nil {
		if b.cache == nil {
			b.cache = map[string]Value{}
		}
		b.cache[loc] = v
	}
}

func (e *Engine) loadAggregate(fr *frame, c *Cell) Value {
	switch v := c.V.(type) {
	case *StructVal:
		n := &StructVal{F: make([]*Cell, len(v.F))}
		for i, f := range v.F {
			n.F[i] = e.newCell(e.load(fr, f))
		}
		return n
	case *ArrayVal:
		n := &ArrayVal{E: make([]*Cell, len(v.E))}
		for i, f := range v.E {
			n.E[i] = e.newCell(e.load(fr, f))
		}
		return n
	}
	return e.load(fr, c)
}

// posOf describes where an access happens: "file:line in function" (the function name makes
// race findings stable when unrelated edits shift line numbers).
func (e *Engine) posOf(fr *frame) string {
	for f := fr; f != nil; f = f.caller {
		if f.pos.IsValid() && (f.fn.Synthetic == "" || strings.HasPrefix(f.fn.Synthetic, "instance")) {
			fn := f.fn.String()
			if i := strings.LastIndex(fn, "/"); i >= 0 {
				fn = fn[i+1:]
			}
			fn = strings.TrimPrefix(fn, "cache.")
			fn = strings.ReplaceAll(fn, "(*cache.", "(*")
			fn = strings.ReplaceAll(fn, "(cache.", "(")
			return e.posStr(f.pos) + " in " + fn
		}
	}
	for f := fr; f != nil; f = f.caller {
		if f.pos.IsValid() {
			return e.posStr(f.pos)
		}
	}
	return "?"
}

func (e *Engine) evStore(fr *frame, c *Cell, v Value) {
	loc, _ := e.cellName(c)
	switch x := v.(type) {
	case *StructVal:
		if dst, ok := c.V.(*StructVal); ok {
			for i := range x.F {
				e.store(fr, dst.F[i], x.F[i].V)
			}
			return
		}
	case *ArrayVal:
		if dst, ok := c.V.(*ArrayVal); ok {
			for i := range x.E {
				e.store(fr, dst.E[i], x.E[i].V)
			}
			return
		}
	}
	e.initialShape(loc, c)
	sh, leaves := e.flatten(v)
	if os.Getenv("SYMGO_DEBUGSHAPES") != "" {
		for _, x := range e.ev.reg.shapes[loc] {
			if (x.Kind == "scalar") != (sh.Kind == "scalar") {
				fmt.Fprintf(os.Stderr, "KINDCHANGE %s: had %s, store of %s at %s cfg=%s snap=%v\n", loc, x.Key(), sh.Key(), e.posOf(fr), e.ev.setupKey, e.describe(e.ev.setupSnap[c.ID]))
			}
		}
	}
	si := e.ev.reg.addShape(loc, sh)
	e.ev.reg.addWriter(loc, e.ev.cur.id)
	e.noteGenWrite(loc, sh)
	e.emitOp(microOp{Kind: "store", Loc: loc, Shape: sh, Leaves: leaves, ShapeI: si, Pos: e.posOf(fr)})
	c.V = e.copyVal(v) // keep the thread's own view (used when it is the only writer)
	e.cacheSet(loc, e.copyVal(v))
	e.endBlock(false)
}

// storeToSetupCell is called for stores to setup cells that are not (yet) known to be mutable.
func (e *Engine) noteMutable(c *Cell, kind string) {
	n, _ := e.cellName(c)
	e.ev.reg.setMutable(n, kind)
	panic(restartExploration{"location " + n + " turned out to be mutable"})
}

func (e *Engine) evAtomic(fr *frame, c *Cell, op string, v *Term) Value {
	loc, _ := e.cellName(c)
	e.initialShape(loc, c)
	// every atomically accessed location takes part in the composition with its initial value, also
	// when no thread ever writes it (otherwise its loads would read an unconstrained value)
	e.ev.reg.setMutable(loc, "cell")
	e.beginAtomic()
	defer e.endAtomic()
	switch op {
	case "load":
		ph := e.newPlaceholder(c.V.(*Term).Sort)
		e.emitOp(microOp{Kind: "load", Loc: loc, Leaves: []*Term{ph}, Atomic: true, Pos: e.posOf(fr)})
		return ph
	case "store":
		sh, leaves := e.flatten(v)
		e.ev.reg.addWriter(loc, e.ev.cur.id)
		e.emitOp(microOp{Kind: "store", Loc: loc, Shape: sh, Leaves: leaves, ShapeI: e.ev.reg.addShape(loc, sh), Atomic: true, Pos: e.posOf(fr)})
		c.V = v
		return nil
	case "add":
		ph := e.newPlaceholder(c.V.(*Term).Sort)
		e.emitOp(microOp{Kind: "load", Loc: loc, Leaves: []*Term{ph}, Atomic: true, Pos: e.posOf(fr)})
		nv := e.tb.IntBin("+", i64, ph, v, e.ovf)
		e.ev.reg.addWriter(loc, -1) // read-modify-write by anybody: never resolved locally
		sh, leaves := e.flatten(nv)
		e.emitOp(microOp{Kind: "store", Loc: loc, Shape: sh, Leaves: leaves, ShapeI: e.ev.reg.addShape(loc, sh), Atomic: true, Pos: e.posOf(fr)})
		return nv
	}
	panic(engineErr("evAtomic %s", op))
}

// ---------------------------------------------------------------------------
// maps
// ---------------------------------------------------------------------------

func (e *Engine) canonKey(k Value) string {
	switch x := k.(type) {
	case *Term:
		if !x.IsConst() {
			return fmt.Sprintf("sym:t%d", x.ID) // same naming as resolveKey gives a symbolic key it adds to the universe
		}
		return constSMT(x)
	case *StrVal:
		s, ok := x.Concrete()
		if !ok {
			panic(engineErr("event mode: symbolic string key used on a shared map"))
		}
		return fmt.Sprintf("%q", s)
	case IfaceVal:
		if x.T == nil {
			return "nil"
		}
		return x.T.String() + ":" + e.canonKey(x.V)
	case *StructVal:
		var parts []string
		for _, f := range x.F {
			parts = append(parts, e.canonKey(f.V))
		}
		return "{" + strings.Join(parts, ",") + "}"
	}
	panic(engineErr("event mode: map key of type %T", k))
}

// resolveKey makes a possibly symbolic key concrete by forking over the known universe.
func (e *Engine) resolveKey(mname string, k Value) (int, string) {
	concrete := true
	switch x := k.(type) {
	case *Term:
		concrete = x.IsConst()
	case *StrVal:
		_, concrete = x.Concrete()
	case IfaceVal:
		if s, ok := x.V.(*StrVal); ok {
			_, concrete = s.Concrete()
		}
	}
	if concrete {
		ck := e.canonKey(k)
		return e.ev.reg.addMapKey(mname, ck, k), ck
	}
	for i, kr := range e.ev.reg.mapKeys[mname] {
		if e.branch(e.equal(kr.val, k)) {
			return i, kr.key
		}
	}
	// different from every key seen so far: a new member of the universe (the fixpoint re-explores the
	// threads that looked keys up before it was known)
	var ck string
	switch x := k.(type) {
	case *Term:
		ck = fmt.Sprintf("sym:t%d", x.ID)
	case *StrVal:
		var sb strings.Builder
		sb.WriteString("sym:str")
		for _, b := range x.B {
			if b.IsConst() {
				fmt.Fprintf(&sb, ":%02x", b.U)
			} else {
				fmt.Fprintf(&sb, ":t%d", b.ID)
			}
		}
		ck = sb.String()
	default:
		panic(engineErr("event mode: symbolic key of type %T on the shared map %s is not modelled", k, mname))
	}
	return e.ev.reg.addMapKey(mname, ck, k), ck
}

func (e *Engine) sharedMap(m *MapVal) (string, bool) {
	if e.ev == nil || !e.ev.active || m == nil {
		return "", false
	}
	n, ok := e.mapName(m)
	if !ok {
		return "", false
	}
	if m.Sync {
		e.ev.reg.syncMap[n] = true
	}
	return n, e.ev.reg.mutable[n]
}

// evMapLookup returns (found, value) of a lookup on a shared mutable map.
func (e *Engine) evMapLookup(fr *frame, mname string, k Value) (bool, Value) {
	return e.evMapLookup2(fr, mname, k, false)
}

// evMapLookup2: mustFind is set by iteration, where the same atomic step has just seen the key present.
func (e *Engine) evMapLookup2(fr *frame, mname string, k Value, mustFind bool) (bool, Value) {
	ki, _ := e.resolveKey(mname, k)
	slot := fmt.Sprintf("%s{%d}", mname, ki)
	if b := e.ev.cur.blk; b != nil && b.mcache != nil {
		if h, ok := b.mcache[slot]; ok {
			return h.found, e.copyVal(h.v)
		}
	}
	found := e.newPlaceholder(BoolSort)
	op := microOp{Kind: "mlookup", Atomic: e.ev.reg.syncMap[mname], Loc: mname, KeyIx: ki, Res: found, Pos: e.posOf(fr)}
	var isFound bool
	if mustFind {
		e.assume(found)
		isFound = true
	} else {
		isFound = e.branch(found)
	}
	var v Value
	if isFound {
		shapes := e.ev.reg.shapes[slot]
		if len(shapes) == 0 {
			panic(pathEnd{kind: "infeasible", msg: "no value ever stored in " + slot})
		}
		si := 0
		if len(shapes) > 1 {
			op.ShapeP = e.newPlaceholder(BV(8))
			e.assume(e.tb.Cmp("<", IntTy{8, false}, op.ShapeP, e.tb.BVConst(uint64(len(shapes)), 8)))
			si = len(shapes) - 1
			for i := 0; i < len(shapes)-1; i++ {
				if e.branch(e.tb.Eq(op.ShapeP, e.tb.BVConst(uint64(i), 8))) {
					si = i
					break
				}
			}
			if si == len(shapes)-1 {
				e.assume(e.tb.Eq(op.ShapeP, e.tb.BVConst(uint64(si), 8)))
			}
		}
		op.ShapeI = si
		for _, s := range shapes[si].leafSorts(nil) {
			op.Leaves = append(op.Leaves, e.newPlaceholder(s))
		}
		pos := 0
		v = e.rebuild(shapes[si], op.Leaves, &pos)
	} else {
		op.ShapeI = -1
	}
	e.emitOp(op)
	e.mcacheSet(slot, isFound, v)
	e.endBlock(false)
	return isFound, v
}

func (e *Engine) mcacheSet(slot string, found bool, v Value) {
	if b := e.ev.cur.blk; b != nil {
		if b.mcache == nil {
			b.mcache = map[string]mapHit{}
		}
		b.mcache[slot] = mapHit{found, v}
	}
}

func (e *Engine) evMapUpdate(fr *frame, mname string, k, v Value) {
	ki, _ := e.resolveKey(mname, k)
	slot := fmt.Sprintf("%s{%d}", mname, ki)
	sh, leaves := e.flatten(v)
	si := e.ev.reg.addShape(slot, sh)
	e.emitOp(microOp{Kind: "mupdate", Atomic: e.ev.reg.syncMap[mname], Loc: mname, KeyIx: ki, Shape: sh, Leaves: leaves, ShapeI: si, Pos: e.posOf(fr)})
	e.mcacheSet(slot, true, e.copyVal(v))
	e.endBlock(false)
}

func (e *Engine) evMapDelete(fr *frame, mname string, k Value) {
	ki, _ := e.resolveKey(mname, k)
	e.emitOp(microOp{Kind: "mdelete", Atomic: e.ev.reg.syncMap[mname], Loc: mname, KeyIx: ki, Pos: e.posOf(fr)})
	e.mcacheSet(fmt.Sprintf("%s{%d}", mname, ki), false, nil)
	e.endBlock(false)
}

func (e *Engine) evMapLen(fr *frame, mname string) *Term {
	ph := e.newPlaceholder(BV(64))
	e.emitOp(microOp{Kind: "mlen", Atomic: e.ev.reg.syncMap[mname], Loc: mname, Res: ph, Pos: e.posOf(fr)})
	e.endBlock(false)
	// a map holds at most as many keys as its universe has members (the universe is part of the registry
	// fixpoint: a key discovered later re-runs this exploration); keeps lengths used as sizes enumerable
	n := len(e.ev.reg.mapKeys[mname])
	e.assume(e.tb.Cmp("<=", IntTy{64, false}, ph, e.tb.BVConst(uint64(n), 64)))
	return ph
}

// evMapNext: iteration over a shared map visits the present keys in universe order; returns
// the universe index of the next present key at or after pos, or -1.
func (e *Engine) evMapNext(fr *frame, mname string, pos int) int {
	keys := e.ev.reg.mapKeys[mname]
	ph := e.newPlaceholder(BV(8))
	e.emitOp(microOp{Kind: "mnext", Atomic: e.ev.reg.syncMap[mname], Loc: mname, KeyIx: pos, Res: ph, Pos: e.posOf(fr)})
	res := -1
	for i := pos; i < len(keys); i++ {
		if e.branch(e.tb.Eq(ph, e.tb.BVConst(uint64(i), 8))) {
			res = i
			break
		}
	}
	if res < 0 {
		e.assume(e.tb.Eq(ph, e.tb.BVConst(255, 8)))
	}
	e.endBlock(false)
	return res
}

// evMapSlotLoad reads the value stored under universe key ki (used by iteration).
func (e *Engine) evMapSlotLoad(fr *frame, mname string, ki int) Value {
	_, v := e.evMapLookup(fr, mname, e.ev.reg.mapKeys[mname][ki].val)
	return v
}

// ---------------------------------------------------------------------------
// mutexes, channels, goroutines
// ---------------------------------------------------------------------------

func (e *Engine) evLock(fr *frame, c *Cell, op string) {
	loc, _ := e.cellName(c)
	e.ev.reg.setMutable(loc, "mutex")
	e.ev.reg.locKind[loc] = "mutex"
	if op == "lock" || op == "rlock" {
		// a blocking operation starts a new block (unless inside an atomic section)
		e.endBlock(false)
	}
	e.emitOp(microOp{Kind: op, Loc: loc, Pos: e.posOf(fr)})
	e.endBlock(false)
}

func (e *Engine) evChanClose(fr *frame, ch *ChanVal) {
	n, _ := e.chanName(ch)
	e.ev.reg.setMutable(n, "chan")
	e.ev.reg.locKind[n] = "chan"
	e.emitOp(microOp{Kind: "close", Loc: n, Pos: e.posOf(fr)})
	e.endBlock(false)
}

func (e *Engine) evChanRecv(fr *frame, ch *ChanVal) {
	n, _ := e.chanName(ch)
	e.ev.reg.setMutable(n, "chan")
	e.ev.reg.locKind[n] = "chan"
	e.endBlock(false)
	e.emitOp(microOp{Kind: "recv", Loc: n, Pos: e.posOf(fr)})
	e.endBlock(false)
}

func (e *Engine) evGo(fr *frame, g goroutine) {
	parent := e.ev.cur
	e.ev.children++
	child := &threadRec{id: 100*parent.id + e.ev.children, name: "go@" + g.pos, parent: parent.id, spawnKey: fmt.Sprintf("%x", hashString(parent.key()))}
	child.lastKey = fmt.Sprintf("T%d[%s]unspawned", child.id, child.spawnKey)
	parent.nSpawned++
	// everything the goroutine can reach through its closure is "captured": a later write to it by
	// either side makes it shared state from this go statement on (decided by the fixpoint)
	e.beginAtomic()
	seen := map[interface{}]bool{}
	if g.fv != nil {
		for _, b := range g.fv.Bind {
			e.capture(b, seen, 0)
		}
	}
	for _, a := range g.args {
		e.capture(a, seen, 0)
	}
	if g.recv != nil {
		e.capture(g.recv, seen, 0)
	}
	e.emitOp(microOp{Kind: "spawn", Child: child.id, Label: child.lastKey, Pos: g.pos})
	e.endAtomic()
	e.ev.threads = append(e.ev.threads, child)
	e.ev.pendingChildren = append(e.ev.pendingChildren, pendingChild{child, g})
}

type pendingChild struct {
	t *threadRec
	g goroutine
}

func hashString(s string) uint32 {
	h := uint32(2166136261)
	for i := 0; i < len(s); i++ {
		h ^= uint32(s[i])
		h *= 16777619
	}
	return h
}

// runThreadBody runs one thread context to completion and then its children.
func (e *Engine) runThread(t *threadRec, body func()) {
	prev := e.ev.cur
	e.ev.cur = t
	body()
	// terminal pseudo-block carries the remaining guards and marks the end of the thread
	e.ev.atomic = 0
	e.closeBlock()
	t.blk = &blockRec{Tid: t.id, Src: t.lastKey, Terminal: true, Ops: []microOp{{Kind: "end"}}}
	e.closeBlock()
	t.done = true
	e.ev.cur = prev
	for len(e.ev.pendingChildren) > 0 {
		pc := e.ev.pendingChildren[0]
		e.ev.pendingChildren = e.ev.pendingChildren[1:]
		e.runThread(pc.t, func() {
			if pc.g.inv != nil {
				e.invoke(nil, pc.g.recv, pc.g.inv.Method, pc.g.args)
			} else {
				e.callFunc(nil, pc.g.fv, pc.g.args)
			}
		})
	}
}

// ---------------------------------------------------------------------------
// intrinsics of concurrency harnesses
// ---------------------------------------------------------------------------

func (e *Engine) evIntrinsic(fr *frame, name string, args []Value) (Value, bool) {
	return nil, false
}

// evRunThreads ends the sequential setup and explores the target thread in event mode.
func (e *Engine) evRunThreads(fr *frame) {
	ev := e.ev
	ev.setupMaxCell, ev.setupMaxMap, ev.setupMaxChan = e.cellN, e.mapN, e.chanN
	ev.setupSnap = map[int]Value{}
	for _, c := range e.allCells {
		ev.setupCells[c.ID] = c
		switch c.V.(type) {
		case *StructVal, *ArrayVal:
		default:
			ev.setupSnap[c.ID] = c.V // values are immutable; the cell may be overwritten by the thread later
		}
	}
	ev.setupMaps = map[int]*MapVal{}
	for _, m := range e.allMaps {
		ev.setupMaps[m.ID] = m
	}
	for _, m := range e.syncMaps {
		ev.setupMaps[m.ID] = m
	}
	ev.setupChans = map[int]*ChanVal{}
	for _, c := range e.allChans {
		ev.setupChans[c.ID] = c
	}
	// arrays created during setup get stable names (their first cell's number)
	nameArr := func(v Value) {
		if sv, ok := v.(SliceVal); ok && sv.Arr != nil && sv.Arr.Name == "" && len(sv.Arr.E) > 0 {
			sv.Arr.Name = fmt.Sprintf("A%d", sv.Arr.E[0].ID)
			ev.arrByName()[sv.Arr.Name] = sv.Arr
		}
	}
	for _, c := range e.allCells {
		nameArr(c.V)
		if iv, ok := c.V.(IfaceVal); ok {
			nameArr(iv.V)
		}
	}
	for _, m := range e.allMaps {
		for _, en := range m.Entries {
			nameArr(en.V)
		}
	}
	for _, m := range e.syncMaps {
		for _, en := range m.Entries {
			nameArr(en.V)
		}
	}
	e.trackCells = false
	ev.setupKey = decString(e.decisions)
	if ev.run != nil {
		rg := ev.run.regs[ev.setupKey]
		if rg == nil {
			rg = newRegistry()
			rg.changed = true
			ev.run.regs[ev.setupKey] = rg
		}
		ev.reg = rg
		ev.run.reg = rg
	}
	// symbolic keys of the setup maps are the first members of their key universes: a symbolic key a thread
	// uses later resolves to the FIRST equal member, so the initial content (attached to the setup key) and
	// every later access agree on the slot also when two keys are equal in the model (hash collisions)
	for _, m := range ev.setupMaps {
		n, ok := e.mapName(m)
		if !ok {
			continue
		}
		for _, en := range m.Entries {
			if t, isTerm := en.K.(*Term); isTerm && !t.IsConst() && !en.Deleted {
				ev.reg.addMapKey(n, e.canonKey(en.K), en.K)
			}
		}
	}
	if ev.options["nofuse"] {
		ev.reg.noFuse = true
	}
	ev.setupPC = append([]*Term{}, e.pc...)
	ev.setupClasses = append([]classRec{}, e.classes...)
	if ev.run != nil {
		ev.run.lastDecls = len(ev.decls)
	}
	for i, d := range ev.decls {
		t := &threadRec{id: i + 1, name: d.name}
		t.rootKey = fmt.Sprintf("T%d[]root", t.id)
		t.lastKey = t.rootKey
		ev.threads = append(ev.threads, t)
	}
	var fin *threadRec
	if ev.finally != nil {
		fin = &threadRec{id: len(ev.decls) + 1, name: "finally"}
		fin.rootKey = fmt.Sprintf("T%d[]root", fin.id)
		fin.lastKey = fin.rootKey
		ev.threads = append(ev.threads, fin)
	}
	ev.active = true
	switch {
	case ev.target < len(ev.decls):
		d := ev.decls[ev.target]
		e.runThread(ev.threads[ev.target], func() { e.callFunc(nil, d.fv, nil) })
	case ev.target == len(ev.decls) && fin != nil:
		e.runThread(fin, func() { e.callFunc(nil, ev.finally, nil) })
	}
	panic(pathEnd{kind: "done"})
}

func sortedNames(m map[string]bool) []string {
	var out []string
	for k := range m {
		out = append(out, k)
	}
	sort.Strings(out)
	return out
}

// evNamed: in event mode, is this cell part of the (setup or published) shared state?
func (e *Engine) evNamed(c *Cell) bool {
	if e.ev == nil || !e.ev.active || c == nil {
		return false
	}
	_, ok := e.cellName(c)
	return ok
}

func (e *Engine) siteOf(fr *frame, in ssa.Instruction) string {
	fn := in.Parent().String()
	if i := strings.LastIndex(fn, "/"); i >= 0 {
		fn = fn[i+1:]
	}
	idx := 0
	for bi, b := range in.Parent().Blocks {
		for ii, x := range b.Instrs {
			if x == in {
				idx = bi*1000 + ii
			}
		}
	}
	return fmt.Sprintf("%s:%d", fn, idx)
}

func (e *Engine) beginAtomic() {
	if e.ev.atomic == 0 {
		e.closeBlock()
	}
	e.ev.atomic++
}

func (e *Engine) endAtomic() {
	e.ev.atomic--
	if e.ev.atomic == 0 {
		e.closeBlock()
	}
}

// capture walks the values reachable from a goroutine's closure.
func (e *Engine) capture(v Value, seen map[interface{}]bool, depth int) {
	if depth > 12 {
		return
	}
	switch x := v.(type) {
	case PtrVal:
		if x.C != nil {
			e.captureCell(x.C, x.C.Origin, seen, depth)
		}
	case SliceVal:
		if x.Arr != nil && !seen[x.Arr] {
			seen[x.Arr] = true
			if x.Arr.Name == "" && x.Arr.Origin != "" && e.ev.reg.pubAtSpawn[x.Arr.Origin] {
				// publish the array now
				x.Arr.Name = x.Arr.Origin
				e.ev.reg.objType[x.Arr.Name] = x.Arr.Type
				e.ev.arrByName()[x.Arr.Name] = x.Arr
				for i, c := range x.Arr.E {
					e.publishCellTree(c, fmt.Sprintf("%s[%d]", x.Arr.Name, i), nil)
				}
			}
			for i, c := range x.Arr.E {
				name := ""
				if x.Arr.Origin != "" {
					name = fmt.Sprintf("%s[%d]", x.Arr.Origin, i)
				}
				e.captureCell(c, name, seen, depth)
				if c.Shared == nil && c.ID > e.ev.setupMaxCell {
					c.CapRoot = x.Arr.Origin
				}
			}
		}
	case IfaceVal:
		e.capture(x.V, seen, depth+1)
	case *FuncVal:
		if x != nil && !seen[x] {
			seen[x] = true
			for _, b := range x.Bind {
				e.capture(b, seen, depth+1)
			}
		}
	case *StructVal:
		for _, f := range x.F {
			e.capture(f.V, seen, depth+1)
		}
	case *ArrayVal:
		for _, f := range x.E {
			e.capture(f.V, seen, depth+1)
		}
	case TupleVal:
		for _, f := range x {
			e.capture(f, seen, depth+1)
		}
	}
}

func (e *Engine) captureCell(c *Cell, root string, seen map[interface{}]bool, depth int) {
	if seen[c] {
		return
	}
	seen[c] = true
	if c.Shared == nil && c.ID > e.ev.setupMaxCell {
		if c.Origin != "" && e.ev.reg.pubAtSpawn[c.Origin] {
			e.ev.reg.objType[c.Origin] = c.Type
			e.publishCellTree(c, c.Origin, c.Type)
		} else {
			e.markCaptured(c, root)
		}
	}
	e.capture(c.V, seen, depth+1)
}

func (e *Engine) markCaptured(c *Cell, root string) {
	c.Captured = true
	if c.CapRoot == "" {
		c.CapRoot = root
	}
	switch v := c.V.(type) {
	case *StructVal:
		for _, f := range v.F {
			e.markCaptured(f, root)
		}
	case *ArrayVal:
		for _, f := range v.E {
			e.markCaptured(f, root)
		}
	}
}

// capturedWrite: a private variable that a goroutine captured is written after the go statement.
func (e *Engine) capturedWrite(c *Cell) {
	root := c.CapRoot
	if root == "" {
		panic(engineErr("event mode: write to a variable captured by a goroutine that has no allocation-site name (not modelled)"))
	}
	if !e.ev.reg.pubAtSpawn[root] {
		e.ev.reg.pubAtSpawn[root] = true
		e.ev.reg.note("captured object written after go: " + root)
	}
	panic(restartExploration{"captured variable " + root + " is written after the go statement"})
}

// ---- value-chain bound (see l2Registry.shapeGen) ----

func (e *Engine) noteGenRead(loc string, sh *Shape) {
	t := e.ev.cur
	if t.genRead == nil {
		t.genRead = map[string]int{}
	}
	g := e.ev.reg.shapeGen[loc][sh.Key()]
	if g > t.genRead[loc] {
		t.genRead[loc] = g
	}
	if _, ok := t.genRead[loc]; !ok {
		t.genRead[loc] = g
	}
}

func (e *Engine) noteGenWrite(loc string, sh *Shape) {
	t := e.ev.cur
	reg := e.ev.reg
	if t.nWrites == nil {
		t.nWrites = map[string]int{}
	}
	t.nWrites[loc]++
	mw := reg.maxWrites[loc]
	if mw == nil {
		mw = map[int]int{}
		reg.maxWrites[loc] = mw
	}
	if t.nWrites[loc] > mw[t.id] {
		mw[t.id] = t.nWrites[loc]
		reg.note(fmt.Sprintf("writes to %s by T%d: %d", loc, t.id, t.nWrites[loc]))
	}
	g := 1
	if r, ok := t.genRead[loc]; ok {
		g = r + 1
	}
	sg := reg.shapeGen[loc]
	if sg == nil {
		sg = map[string]int{}
		reg.shapeGen[loc] = sg
	}
	if old, ok := sg[sh.Key()]; !ok || g < old {
		sg[sh.Key()] = g
		if ok {
			reg.note(fmt.Sprintf("generation of a shape of %s lowered to %d", loc, g))
		}
	}
}

// allowedShapes returns the indices of the shapes a reader may see (never empty).
func (e *Engine) allowedShapes(loc string, shapes []*Shape) []int {
	reg := e.ev.reg
	bound := 0
	for _, n := range reg.maxWrites[loc] {
		bound += n
	}
	var out []int
	for i, sh := range shapes {
		g, written := reg.shapeGen[loc][sh.Key()]
		if !written || bound == 0 || g <= bound {
			out = append(out, i)
		}
	}
	if len(out) == 0 {
		for i := range shapes {
			out = append(out, i)
		}
	}
	return out
}
