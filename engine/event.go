package main

// Event mode (L2) — placeholder until the concurrency layer is built.

type SharedInfo struct{ Name string }

type eventCtx struct{}

func (e *Engine) evLoad(fr *frame, c *Cell) Value     { panic(engineErr("event mode not built")) }
func (e *Engine) evStore(fr *frame, c *Cell, v Value) { panic(engineErr("event mode not built")) }
func (e *Engine) evMapFind(fr *frame, m *MapVal, k Value) *mapEntry {
	panic(engineErr("event mode not built"))
}
func (e *Engine) evChanClose(fr *frame, ch *ChanVal)   { panic(engineErr("event mode not built")) }
func (e *Engine) evChanRecv(fr *frame, ch *ChanVal)    { panic(engineErr("event mode not built")) }
func (e *Engine) evGo(fr *frame, g goroutine)          { panic(engineErr("event mode not built")) }
func (e *Engine) evLock(fr *frame, c *Cell, op string) { panic(engineErr("event mode not built")) }
func (e *Engine) evAtomic(fr *frame, c *Cell, op string, v *Term) Value {
	panic(engineErr("event mode not built"))
}
func (e *Engine) evIntrinsic(fr *frame, name string, args []Value) (Value, bool) {
	return nil, false
}
