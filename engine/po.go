package main

// Partial-order encoding of the composed thread automata (symbolic schedule as clock
// variables, in the style of Alglave/Kroening/Tautschnig CAV'13 and CBMC):
//
//   x_e   Bool  edge (atomic block) e is executed
//   c_e   Int   its position in the global order (the schedule)
//
// Per thread the executed edges form a path of its automaton (guards over the values read);
// every read of a shared location takes its value from the latest write before it in clock
// order ("read-from" selection with a no-intervening-write condition) or from the initial
// state. Mutexes, channel-closed bits and map presence bits are locations like any other, so
// mutual exclusion and blocking follow from read-from consistency. Only the order of
// conflicting accesses matters, which is what makes unsat answers cheap compared with a
// step-indexed interleaving formula.

import (
	"fmt"
	"os"
	"sort"
	"strings"
)

type primRead struct {
	edge  *l2Edge
	loc   string
	comps []*Term // placeholder per component (nil: component not read)
}

type primWrite struct {
	edge  *l2Edge
	loc   string
	comps []*Term // value per component (nil: unspecified)
}

type poLoc struct {
	name   string
	names  []string // component variable names
	sorts  []Sort
	ix     map[string]int
	init   []*Term
	reads  []*primRead
	writes []*primWrite // block-final writes
}

type po struct {
	b      *bmc
	tb     *TermBuilder
	locs   map[string]*poLoc
	x      map[*l2Edge]*Term
	c      map[*l2Edge]*Term
	cons   []*Term
	fresh  int
	inE    map[*l2Edge][]*l2Edge // predecessors (edges ending where this one starts)
	outN   map[int]map[string][]*l2Edge
	spawnE map[string][]*l2Edge // child root key -> edges containing the spawn
	lockAt map[*l2Edge]string   // edges whose first op blocks: location
}

func (p *po) add(t *Term) { p.cons = append(p.cons, t) }

// clocks are bit-vectors (pure QF_BV formulas bit-blast well); SYMGO_INTCLOCK=1 selects integers
const clockW = 12

func clockSort() Sort {
	if os.Getenv("SYMGO_BVCLOCK") != "" {
		return BV(clockW)
	}
	return IntSort
}

func (p *po) threadIndex(tid int) int {
	for i, t := range p.b.threads {
		if t.Tid == tid {
			return i
		}
	}
	return 0
}

func (p *po) clockConst(v int64) *Term {
	if clockSort().K == SInt {
		return p.tb.IntConst64(v)
	}
	return p.tb.BVConst(uint64(v), clockW)
}

func (p *po) le(a, b *Term) *Term {
	if a.Sort.K == SInt {
		return p.tb.Cmp("<=", IntTy{}, a, b)
	}
	return p.tb.Cmp("<=", IntTy{clockW, false}, a, b)
}

func (p *po) lt(a, b *Term) *Term {
	if a.Sort.K == SInt {
		return p.tb.Cmp("<", IntTy{}, a, b)
	}
	return p.tb.Cmp("<", IntTy{clockW, false}, a, b)
}

func (p *po) freshSym(s Sort, tag string) *Term {
	p.fresh++
	return p.tb.Sym(fmt.Sprintf("po!%s!%d", tag, p.fresh), s)
}

func (p *po) loc(name string) *poLoc {
	if l, ok := p.locs[name]; ok {
		return l
	}
	l := &poLoc{name: name, ix: map[string]int{}}
	p.locs[name] = l
	return l
}

func (l *poLoc) comp(name string, s Sort) int {
	if i, ok := l.ix[name]; ok {
		return i
	}
	l.ix[name] = len(l.names)
	l.names = append(l.names, name)
	l.sorts = append(l.sorts, s)
	return len(l.names) - 1
}

// valLoc prepares the component layout of a cell / map-slot location from the registry.
func (p *po) valLoc(loc string) *poLoc {
	name := "val:" + loc
	if l, ok := p.locs[name]; ok {
		return l
	}
	l := p.loc(name)
	shapes := p.b.reg.shapes[loc]
	if len(shapes) > 1 {
		l.comp("sh", BV(8))
	}
	for _, sh := range shapes {
		names, sorts := leafVars(loc, sh)
		for i := range names {
			l.comp(names[i], sorts[i])
		}
	}
	return l
}

func (p *po) bitLoc(name string, s Sort) *poLoc {
	l := p.loc(name)
	l.comp("v", s)
	return l
}

type blockState struct {
	local map[string][]*Term // location -> current component values written earlier in this block
}

// readPrim registers a read of loc inside edge ed; comps are the placeholders.
func (p *po) readPrim(ed *l2Edge, bs *blockState, l *poLoc, comps []*Term) {
	for len(comps) < len(l.names) {
		comps = append(comps, nil)
	}
	if cur, ok := bs.local[l.name]; ok {
		// forwarded from an earlier write of the same atomic block
		for i, ph := range comps {
			if ph != nil && i < len(cur) && cur[i] != nil {
				p.add(p.tb.Implies(p.x[ed], p.tb.Eq(ph, cur[i])))
			}
		}
		return
	}
	l.reads = append(l.reads, &primRead{edge: ed, loc: l.name, comps: comps})
}

func (p *po) writePrim(ed *l2Edge, bs *blockState, l *poLoc, comps []*Term) {
	for len(comps) < len(l.names) {
		comps = append(comps, nil)
	}
	bs.local[l.name] = comps
}

func (p *po) shapeComps(l *poLoc, loc string, shapeI int, shapeTerm *Term, leaves []*Term) []*Term {
	comps := make([]*Term, len(l.names))
	if i, ok := l.ix["sh"]; ok {
		comps[i] = shapeTerm
	}
	if shapeI >= 0 && shapeI < len(p.b.reg.shapes[loc]) {
		names, _ := leafVars(loc, p.b.reg.shapes[loc][shapeI])
		for k, n := range names {
			if k < len(leaves) {
				comps[l.ix[n]] = leaves[k]
			}
		}
	}
	return comps
}

// buildPO constructs the constraint system; violations/reach maps are filled like in the
// step-indexed encoding.
func (b *bmc) buildPO() *po {
	tb := b.tb
	p := &po{b: b, tb: tb, locs: map[string]*poLoc{}, x: map[*l2Edge]*Term{}, c: map[*l2Edge]*Term{}, inE: map[*l2Edge][]*l2Edge{},
		outN: map[int]map[string][]*l2Edge{}, spawnE: map[string][]*l2Edge{}, lockAt: map[*l2Edge]string{}}
	for _, c := range b.cfg.SetupPC {
		p.add(c)
	}
	for _, ed := range b.edges {
		p.x[ed] = tb.Sym(fmt.Sprintf("x!%d", ed.ID), BoolSort)
		if clockSort().K == SInt {
			// clock = T*k + index(thread): blocks of different threads can never share a clock value,
			// which replaces a quadratic number of pairwise disequalities
			k := tb.Sym(fmt.Sprintf("k!%d", ed.ID), IntSort)
			p.add(tb.Cmp("<=", IntTy{}, tb.IntConst64(0), k))
			p.c[ed] = tb.mk("+", IntSort, tb.mk("*", IntSort, tb.IntConst64(int64(len(b.threads))), k), tb.IntConst64(int64(p.threadIndex(ed.Tid))))
		} else {
			p.c[ed] = tb.Sym(fmt.Sprintf("c!%d", ed.ID), clockSort())
			p.add(tb.Not(tb.Eq(p.c[ed], p.clockConst(-1))))
		}
		if p.outN[ed.Tid] == nil {
			p.outN[ed.Tid] = map[string][]*l2Edge{}
		}
		p.outN[ed.Tid][ed.Src] = append(p.outN[ed.Tid][ed.Src], ed)
		for _, op := range ed.Ops {
			if op.Kind == "spawn" {
				p.spawnE[fmt.Sprintf("%d|%s", op.Child, op.Label)] = append(p.spawnE[fmt.Sprintf("%d|%s", op.Child, op.Label)], ed)
			}
		}
	}
	byDst := map[int]map[string][]*l2Edge{}
	for _, ed := range b.edges {
		if byDst[ed.Tid] == nil {
			byDst[ed.Tid] = map[string][]*l2Edge{}
		}
		byDst[ed.Tid][ed.Dst] = append(byDst[ed.Tid][ed.Dst], ed)
	}
	// ---- path structure
	terminalOf := map[int][]*l2Edge{}
	for _, ed := range b.edges {
		if ed.Terminal {
			terminalOf[ed.Tid] = append(terminalOf[ed.Tid], ed)
		}
	}
	spawnEdgesOf := map[int][]*l2Edge{}
	for k, eds := range p.spawnE {
		var tid int
		fmt.Sscanf(k, "%d|", &tid)
		spawnEdgesOf[tid] = append(spawnEdgesOf[tid], eds...)
	}
	for _, t := range b.threads {
		for src, outs := range p.outN[t.Tid] {
			// at most one outgoing edge of a node executes
			for i := 0; i < len(outs); i++ {
				for j := i + 1; j < len(outs); j++ {
					p.add(tb.Or(tb.Not(p.x[outs[i]]), tb.Not(p.x[outs[j]])))
				}
			}
			preds := byDst[t.Tid][src]
			for _, ed := range outs {
				p.inE[ed] = preds
				switch {
				case len(preds) > 0:
					var alts []*Term
					for _, pr := range preds {
						alts = append(alts, tb.And(p.x[pr], p.lt(p.c[pr], p.c[ed])))
					}
					p.add(tb.Implies(p.x[ed], tb.Or(alts...)))
				case t.Spawned:
					sp := p.spawnE[fmt.Sprintf("%d|%s", t.Tid, src)]
					var alts []*Term
					for _, se := range sp {
						alts = append(alts, tb.And(p.x[se], p.lt(p.c[se], p.c[ed])))
					}
					p.add(tb.Implies(p.x[ed], tb.Or(alts...)))
				case t.Name == "finally":
					// runs at quiescence: every other thread finished (or was never spawned), and after all of them
					var cs []*Term
					for _, o := range b.threads {
						if o.Tid == t.Tid {
							continue
						}
						var fin []*Term
						for _, te := range terminalOf[o.Tid] {
							fin = append(fin, p.x[te])
						}
						if o.Spawned {
							var nos []*Term
							for _, se := range spawnEdgesOf[o.Tid] {
								nos = append(nos, tb.Not(p.x[se]))
							}
							fin = append(fin, tb.And(nos...))
						}
						cs = append(cs, tb.Or(fin...))
					}
					for _, oe := range b.edges {
						if oe.Tid != t.Tid {
							cs = append(cs, tb.Implies(p.x[oe], p.lt(p.c[oe], p.c[ed])))
						}
					}
					p.add(tb.Implies(p.x[ed], tb.And(cs...)))
				}
				p.add(tb.Implies(p.x[ed], b.guardOnce(ed)))
			}
		}
	}
	// ---- micro-operations -> primitive reads / writes
	for _, ed := range b.edges {
		bs := &blockState{local: map[string][]*Term{}}
		x := p.x[ed]
		var soFar []*Term
		addViol := func(label string, c *Term) {
			b.viol[label] = append(b.viol[label], tb.And(append(append([]*Term{x}, soFar...), c)...))
		}
		for oi := range ed.Ops {
			op := &ed.Ops[oi]
			switch op.Kind {
			case "load":
				l := p.valLoc(op.Loc)
				p.readPrim(ed, bs, l, p.shapeComps(l, op.Loc, op.ShapeI, op.ShapeP, op.Leaves))
			case "store":
				l := p.valLoc(op.Loc)
				var sh *Term
				if _, ok := l.ix["sh"]; ok {
					sh = tb.BVConst(uint64(op.ShapeI), 8)
				}
				p.writePrim(ed, bs, l, p.shapeComps(l, op.Loc, op.ShapeI, sh, op.Leaves))
			case "mlookup":
				bl := p.bitLoc(fmt.Sprintf("mp:%s:%d", op.Loc, op.KeyIx), BoolSort)
				p.readPrim(ed, bs, bl, []*Term{op.Res})
				if op.ShapeI >= 0 {
					slot := fmt.Sprintf("%s{%d}", op.Loc, op.KeyIx)
					l := p.valLoc(slot)
					p.readPrim(ed, bs, l, p.shapeComps(l, slot, op.ShapeI, op.ShapeP, op.Leaves))
				}
			case "mupdate":
				bl := p.bitLoc(fmt.Sprintf("mp:%s:%d", op.Loc, op.KeyIx), BoolSort)
				p.writePrim(ed, bs, bl, []*Term{tb.Bool(true)})
				slot := fmt.Sprintf("%s{%d}", op.Loc, op.KeyIx)
				l := p.valLoc(slot)
				var sh *Term
				if _, ok := l.ix["sh"]; ok {
					sh = tb.BVConst(uint64(op.ShapeI), 8)
				}
				p.writePrim(ed, bs, l, p.shapeComps(l, slot, op.ShapeI, sh, op.Leaves))
			case "mdelete":
				bl := p.bitLoc(fmt.Sprintf("mp:%s:%d", op.Loc, op.KeyIx), BoolSort)
				p.writePrim(ed, bs, bl, []*Term{tb.Bool(false)})
			case "mlen":
				sum := tb.BVConst(0, 64)
				for u := range b.reg.mapKeys[op.Loc] {
					bl := p.bitLoc(fmt.Sprintf("mp:%s:%d", op.Loc, u), BoolSort)
					ph := p.freshSym(BoolSort, "len")
					p.readPrim(ed, bs, bl, []*Term{ph})
					sum = tb.IntBin("+", u64, sum, tb.Ite(ph, tb.BVConst(1, 64), tb.BVConst(0, 64)), nil)
				}
				p.add(tb.Implies(x, tb.Eq(op.Res, sum)))
			case "mnext":
				r := tb.BVConst(255, 8)
				keys := b.reg.mapKeys[op.Loc]
				phs := make([]*Term, len(keys))
				for u := op.KeyIx; u < len(keys); u++ {
					bl := p.bitLoc(fmt.Sprintf("mp:%s:%d", op.Loc, u), BoolSort)
					phs[u] = p.freshSym(BoolSort, "next")
					p.readPrim(ed, bs, bl, []*Term{phs[u]})
				}
				for u := len(keys) - 1; u >= op.KeyIx; u-- {
					r = tb.Ite(phs[u], tb.BVConst(uint64(u), 8), r)
				}
				p.add(tb.Implies(x, tb.Eq(op.Res, r)))
			case "lock":
				w := p.bitLoc("mw:"+op.Loc, BoolSort)
				r := p.bitLoc("mr:"+op.Loc, BV(8))
				pw, pr := p.freshSym(BoolSort, "lk"), p.freshSym(BV(8), "lk")
				p.readPrim(ed, bs, w, []*Term{pw})
				p.readPrim(ed, bs, r, []*Term{pr})
				p.add(tb.Implies(x, tb.And(tb.Not(pw), tb.Eq(pr, tb.BVConst(0, 8)))))
				p.writePrim(ed, bs, w, []*Term{tb.Bool(true)})
				if oi == 0 {
					p.lockAt[ed] = "lock:" + op.Loc
				}
			case "unlock":
				w := p.bitLoc("mw:"+op.Loc, BoolSort)
				pw := p.freshSym(BoolSort, "ul")
				p.readPrim(ed, bs, w, []*Term{pw})
				addViol("auto:unlock of unlocked mutex", tb.Not(pw))
				p.writePrim(ed, bs, w, []*Term{tb.Bool(false)})
			case "rlock":
				w := p.bitLoc("mw:"+op.Loc, BoolSort)
				r := p.bitLoc("mr:"+op.Loc, BV(8))
				pw, pr := p.freshSym(BoolSort, "rl"), p.freshSym(BV(8), "rl")
				p.readPrim(ed, bs, w, []*Term{pw})
				p.readPrim(ed, bs, r, []*Term{pr})
				p.add(tb.Implies(x, tb.Not(pw)))
				p.writePrim(ed, bs, r, []*Term{tb.IntBin("+", IntTy{8, false}, pr, tb.BVConst(1, 8), nil)})
				if oi == 0 {
					p.lockAt[ed] = "rlock:" + op.Loc
				}
			case "runlock":
				r := p.bitLoc("mr:"+op.Loc, BV(8))
				pr := p.freshSym(BV(8), "ru")
				p.readPrim(ed, bs, r, []*Term{pr})
				addViol("auto:RUnlock of unlocked RWMutex", tb.Eq(pr, tb.BVConst(0, 8)))
				p.writePrim(ed, bs, r, []*Term{tb.IntBin("-", IntTy{8, false}, pr, tb.BVConst(1, 8), nil)})
			case "close":
				cl := p.bitLoc("cc:"+op.Loc, BoolSort)
				pc := p.freshSym(BoolSort, "cl")
				p.readPrim(ed, bs, cl, []*Term{pc})
				addViol("auto:close of closed channel", pc)
				p.writePrim(ed, bs, cl, []*Term{tb.Bool(true)})
			case "recv":
				cl := p.bitLoc("cc:"+op.Loc, BoolSort)
				pc := p.freshSym(BoolSort, "rv")
				p.readPrim(ed, bs, cl, []*Term{pc})
				p.add(tb.Implies(x, pc))
				if oi == 0 {
					p.lockAt[ed] = "recv:" + op.Loc
				}
			case "assert":
				addViol(op.Label, tb.Not(op.Cond))
				b.violPos[op.Label] = op.Pos
				b.reach[op.Label] = append(b.reach[op.Label], x)
				soFar = append(soFar, op.Cond)
			case "reach":
				b.reach[op.Label] = append(b.reach[op.Label], x)
			case "spawn", "mark", "end":
			default:
				panic(engineErr("PO: unknown micro-op %s", op.Kind))
			}
		}
		// block-final writes become visible to other blocks
		var names []string
		for n := range bs.local {
			names = append(names, n)
		}
		sort.Strings(names)
		for _, n := range names {
			l := p.locs[n]
			l.writes = append(l.writes, &primWrite{edge: ed, loc: n, comps: bs.local[n]})
		}
	}
	// ---- initial values
	for loc, iv := range b.cfg.Init {
		l := p.valLoc(loc)
		var sh *Term
		if _, ok := l.ix["sh"]; ok {
			sh = tb.BVConst(uint64(b.reg.shapeIdx[loc][iv.Shape.Key()]), 8)
		}
		l.init = p.shapeComps(l, loc, b.reg.shapeIdx[loc][iv.Shape.Key()], sh, iv.Leaves)
	}
	for m, keys := range b.reg.mapKeys {
		if !b.reg.mutable[m] {
			continue
		}
		init := b.cfg.InitMaps[m]
		for u := range keys {
			bl := p.bitLoc(fmt.Sprintf("mp:%s:%d", m, u), BoolSort)
			if iv, ok := init[u]; ok {
				bl.init = []*Term{tb.Bool(true)}
				slot := fmt.Sprintf("%s{%d}", m, u)
				l := p.valLoc(slot)
				var sh *Term
				if _, ok := l.ix["sh"]; ok {
					sh = tb.BVConst(uint64(b.reg.shapeIdx[slot][iv.Shape.Key()]), 8)
				}
				l.init = p.shapeComps(l, slot, b.reg.shapeIdx[slot][iv.Shape.Key()], sh, iv.Leaves)
			} else {
				bl.init = []*Term{tb.Bool(false)}
			}
		}
	}
	for name, l := range p.locs {
		switch {
		case strings.HasPrefix(name, "mw:"):
			l.init = []*Term{tb.Bool(false)}
		case strings.HasPrefix(name, "mr:"):
			l.init = []*Term{tb.BVConst(0, 8)}
		case strings.HasPrefix(name, "cc:"):
			l.init = []*Term{tb.Bool(b.cfg.InitChans[strings.TrimPrefix(name, "cc:")])}
		}
	}
	// ---- read-from
	var lnames []string
	for n := range p.locs {
		lnames = append(lnames, n)
	}
	sort.Strings(lnames)
	for _, n := range lnames {
		l := p.locs[n]
		for ri, r := range l.reads {
			cr := p.c[r.edge]
			var sels []*Term
			eqVals := func(vals []*Term) *Term {
				var cs []*Term
				for i, ph := range r.comps {
					if ph != nil && i < len(vals) && vals[i] != nil {
						cs = append(cs, tb.Eq(ph, vals[i]))
					}
				}
				return tb.And(cs...)
			}
			var cands []*primWrite
			for _, w := range l.writes {
				if w.edge == r.edge {
					continue // a write later in the same block is not visible to this read
				}
				if w.edge.Tid == r.edge.Tid && !b.mayPrecede(w.edge, r.edge) {
					continue
				}
				cands = append(cands, w)
			}
			// lc = clock of the latest executed write before the read (-1: none, the initial value is read);
			// linear in the number of candidate writes
			lc := tb.Sym(fmt.Sprintf("lc!%s!%d", n, ri), clockSort())
			minus1 := p.clockConst(-1)
			for _, w2 := range cands {
				p.add(tb.Implies(tb.And(p.x[r.edge], p.x[w2.edge], p.lt(p.c[w2.edge], cr)), p.le(p.c[w2.edge], lc)))
			}
			{
				s := tb.Sym(fmt.Sprintf("rf!%s!%d!init", n, ri), BoolSort)
				cs := []*Term{tb.Eq(lc, minus1)}
				if l.init != nil {
					cs = append(cs, eqVals(l.init))
				}
				p.add(tb.Implies(s, tb.And(cs...)))
				sels = append(sels, s)
			}
			for wi, w := range cands {
				s := tb.Sym(fmt.Sprintf("rf!%s!%d!%d", n, ri, wi), BoolSort)
				cw := p.c[w.edge]
				p.add(tb.Implies(s, tb.And(p.x[w.edge], p.lt(cw, cr), tb.Eq(lc, cw), eqVals(w.comps))))
				sels = append(sels, s)
			}
			p.add(tb.Implies(p.x[r.edge], tb.Or(sels...)))
		}
	}
	// ---- blocks of different threads that touch a common location never share a clock value
	touch := map[*l2Edge]map[string]bool{}
	for _, n := range lnames {
		l := p.locs[n]
		for _, r := range l.reads {
			if touch[r.edge] == nil {
				touch[r.edge] = map[string]bool{}
			}
			touch[r.edge][n] = true
		}
		for _, w := range l.writes {
			if touch[w.edge] == nil {
				touch[w.edge] = map[string]bool{}
			}
			touch[w.edge][n] = true
		}
	}
	for i := 0; i < len(b.edges) && clockSort().K != SInt; i++ {
		for j := i + 1; j < len(b.edges); j++ {
			e1, e2 := b.edges[i], b.edges[j]
			if e1.Tid == e2.Tid {
				continue
			}
			common := false
			for n := range touch[e1] {
				if touch[e2][n] {
					common = true
					break
				}
			}
			if common {
				p.add(tb.Not(tb.Eq(p.c[e1], p.c[e2])))
			}
		}
	}
	b.cons = p.cons
	b.po = p
	return p
}

// mayPrecede: can edge a be executed before edge b on one path of the same thread's DAG?
func (b *bmc) mayPrecede(a, c *l2Edge) bool {
	if b.reachMemo == nil {
		b.reachMemo = map[[2]int]bool{}
		b.bySrcAll = map[int]map[string][]*l2Edge{}
		for _, ed := range b.edges {
			if b.bySrcAll[ed.Tid] == nil {
				b.bySrcAll[ed.Tid] = map[string][]*l2Edge{}
			}
			b.bySrcAll[ed.Tid][ed.Src] = append(b.bySrcAll[ed.Tid][ed.Src], ed)
		}
	}
	key := [2]int{a.ID, c.ID}
	if v, ok := b.reachMemo[key]; ok {
		return v
	}
	// DFS from a.Dst
	seen := map[string]bool{}
	var dfs func(k string) bool
	dfs = func(k string) bool {
		if seen[k] {
			return false
		}
		seen[k] = true
		for _, ed := range b.bySrcAll[a.Tid][k] {
			if ed == c || dfs(ed.Dst) {
				return true
			}
		}
		return false
	}
	r := dfs(a.Dst)
	b.reachMemo[key] = r
	return r
}

// poTrace orders the executed edges of the model by clock.
func (b *bmc) poTrace() []string { return b.poTraceFrom(b.solver) }

func (b *bmc) poTraceFrom(fs *Solver) []string {
	p := b.po
	var xs, cs []*Term
	for _, ed := range b.edges {
		xs = append(xs, p.x[ed])
		cs = append(cs, p.c[ed])
	}
	xv := fs.Values(xs)
	cv := fs.Values(cs)
	type ev struct {
		c  int64
		ed *l2Edge
	}
	var evs []ev
	for _, ed := range b.edges {
		if xv[p.x[ed].Name] != "true" {
			continue
		}
		ck := p.c[ed].Name
		if p.c[ed].Op != "sym" {
			ck = refName(p.c[ed])
		}
		evs = append(evs, ev{parseSMTInt(cv[ck]).Int64(), ed})
	}
	sort.Slice(evs, func(i, j int) bool {
		if evs[i].c != evs[j].c {
			return evs[i].c < evs[j].c
		}
		return evs[i].ed.ID < evs[j].ed.ID
	})
	var out []string
	for _, e := range evs {
		out = append(out, fmt.Sprintf("clock %d: thread %d (%s): %s", e.c, e.ed.Tid, b.cfg.Threads[e.ed.Tid].Name, b.describeEdge(e.ed)))
	}
	return out
}

func (b *bmc) describeEdge(ed *l2Edge) string {
	var ops []string
	for _, op := range ed.Ops {
		if op.Pos == "publish" {
			continue
		}
		d := op.Kind
		if op.Loc != "" {
			d += " " + op.Loc
		}
		if op.Kind == "mlookup" || op.Kind == "mupdate" || op.Kind == "mdelete" {
			d += fmt.Sprintf("{%s}", b.reg.mapKeys[op.Loc][op.KeyIx].key)
		}
		if op.Label != "" {
			d += " [" + op.Label + "]"
		}
		if op.Pos != "" {
			d += " @" + op.Pos
		}
		ops = append(ops, d)
	}
	return strings.Join(ops, "; ")
}

// poDeadlock: a maximal execution in which some thread rests at a blocking operation that the
// final state does not let through (mutex held forever, channel never closed). Threads can
// only rest at terminal nodes or at blocked blocking nodes (maximality).
func (b *bmc) poDeadlock() *Term {
	tb := b.tb
	p := b.po
	// final value of every lock / channel location: the value of the executed write with the largest clock
	final := map[string]*Term{}
	finalOf := func(name string, s Sort) *Term {
		if t, ok := final[name]; ok {
			return t
		}
		l := p.locs[name]
		f := tb.Sym("final!"+name, s)
		final[name] = f
		if l == nil {
			// never accessed: initial value
			if s.K == SBool {
				p.cons = append(p.cons, tb.Eq(f, tb.Bool(false)))
			} else {
				p.cons = append(p.cons, tb.Eq(f, tb.BVConst(0, s.W)))
			}
			return f
		}
		var sels []*Term
		si := tb.Sym("finalsel!"+name+"!init", BoolSort)
		var cs []*Term
		if l.init != nil && l.init[0] != nil {
			cs = append(cs, tb.Eq(f, l.init[0]))
		}
		for _, w := range l.writes {
			cs = append(cs, tb.Not(p.x[w.edge]))
		}
		p.cons = append(p.cons, tb.Implies(si, tb.And(cs...)))
		sels = append(sels, si)
		for wi, w := range l.writes {
			sw := tb.Sym(fmt.Sprintf("finalsel!%s!%d", name, wi), BoolSort)
			cs := []*Term{p.x[w.edge]}
			if w.comps[0] != nil {
				cs = append(cs, tb.Eq(f, w.comps[0]))
			}
			for _, w2 := range l.writes {
				if w2 != w {
					cs = append(cs, tb.Implies(p.x[w2.edge], p.lt(p.c[w2.edge], p.c[w.edge])))
				}
			}
			p.cons = append(p.cons, tb.Implies(sw, tb.And(cs...)))
			sels = append(sels, sw)
		}
		p.cons = append(p.cons, tb.Or(sels...))
		return f
	}
	var stuckAny []*Term
	var maximal []*Term
	byDst := map[int]map[string][]*l2Edge{}
	for _, ed := range b.edges {
		if byDst[ed.Tid] == nil {
			byDst[ed.Tid] = map[string][]*l2Edge{}
		}
		byDst[ed.Tid][ed.Dst] = append(byDst[ed.Tid][ed.Dst], ed)
	}
	for _, t := range b.threads {
		if t.Name == "finally" {
			continue
		}
		for node, outs := range p.outN[t.Tid] {
			// the thread rests at node: it got there and took none of the outgoing edges
			var arrived *Term
			preds := byDst[t.Tid][node]
			switch {
			case len(preds) > 0:
				var as []*Term
				for _, pr := range preds {
					as = append(as, p.x[pr])
				}
				arrived = tb.Or(as...)
			case t.Spawned:
				var as []*Term
				for _, se := range p.spawnE[fmt.Sprintf("%d|%s", t.Tid, node)] {
					as = append(as, p.x[se])
				}
				arrived = tb.Or(as...)
			default:
				arrived = tb.Bool(true)
			}
			var none []*Term
			for _, o := range outs {
				none = append(none, tb.Not(p.x[o]))
			}
			rest := tb.And(append([]*Term{arrived}, none...)...)
			// is this a blocking node? all outgoing edges start with the same blocking operation
			blk := p.lockAt[outs[0]]
			for _, o := range outs {
				if p.lockAt[o] != blk {
					blk = ""
				}
			}
			if blk == "" {
				// a thread never rests at a non-blocking, non-terminal node in a maximal execution
				maximal = append(maximal, tb.Not(rest))
				continue
			}
			var blocked *Term
			parts := strings.SplitN(blk, ":", 2)
			switch parts[0] {
			case "lock":
				blocked = tb.Or(finalOf("mw:"+parts[1], BoolSort), tb.Not(tb.Eq(finalOf("mr:"+parts[1], BV(8)), tb.BVConst(0, 8))))
			case "rlock":
				blocked = finalOf("mw:"+parts[1], BoolSort)
			case "recv":
				blocked = tb.Not(finalOf("cc:"+parts[1], BoolSort))
			}
			maximal = append(maximal, tb.Implies(rest, blocked))
			stuckAny = append(stuckAny, tb.And(rest, blocked))
		}
	}
	b.cons = p.cons
	return tb.And(tb.And(maximal...), tb.Or(stuckAny...))
}

// poRaces: two conflicting accesses of different threads that are adjacent in the global order
// (no executed block between them) — i.e. not ordered by any synchronisation.
func (b *bmc) poRaces() {
	tb := b.tb
	p := b.po
	type ea struct {
		ed *l2Edge
		a  access
	}
	byLoc := map[string][]ea{}
	for _, ed := range b.edges {
		for _, a := range edgeAccesses(ed) {
			byLoc[a.loc] = append(byLoc[a.loc], ea{ed, a})
		}
	}
	for _, as := range byLoc {
		for i := 0; i < len(as); i++ {
			for j := 0; j < len(as); j++ {
				x, y := as[i], as[j]
				if i == j || x.ed.Tid == y.ed.Tid {
					continue
				}
				if !x.a.write && !y.a.write {
					continue
				}
				if x.a.atomic && y.a.atomic {
					continue
				}
				d1, d2 := x.a.desc, y.a.desc
				if d2 < d1 {
					d1, d2 = d2, d1
				}
				label := fmt.Sprintf("auto:race: %s / %s", d1, d2)
				// x immediately before y
				cs := []*Term{p.x[x.ed], p.x[y.ed], p.lt(p.c[x.ed], p.c[y.ed])}
				for _, o := range b.edges {
					if o == x.ed || o == y.ed {
						continue
					}
					cs = append(cs, tb.Implies(p.x[o], tb.Or(p.lt(p.c[o], p.c[x.ed]), p.lt(p.c[y.ed], p.c[o]))))
				}
				b.viol[label] = append(b.viol[label], tb.And(cs...))
			}
		}
	}
}
