package main

import (
	"bufio"
	"fmt"
	"io"
	"os/exec"
	"strings"
	"time"
)

// Solver drives one persistent SMT solver process. Everything is declared at
// level 0; queries use check-sat-assuming over named Bool terms.
type Solver struct {
	cmd     *exec.Cmd
	inRaw   io.WriteCloser
	in      *bufio.Writer
	out     *bufio.Reader
	emitted map[int]bool
	funs    map[string]bool
	tb      *TermBuilder
	Name    string
	Args    []string

	Queries  int
	Sat      int
	Unsat    int
	Unknown  int
	Seconds  float64
	TimeoutS int
	Log      io.Writer // optional transcript
	litN     int
}

type engineError struct{ msg string }

func (e engineError) Error() string { return e.msg }
func engineErr(f string, a ...interface{}) engineError {
	return engineError{fmt.Sprintf(f, a...)}
}

type progPanic struct{ msg string }

func NewSolver(tb *TermBuilder, name string, timeoutS int) *Solver {
	s := &Solver{tb: tb, emitted: map[int]bool{}, funs: map[string]bool{}, Name: name, TimeoutS: timeoutS}
	switch name {
	case "z3", "z3-new":
		s.Args = []string{"-in", fmt.Sprintf("-t:%d", timeoutS*1000)}
	case "cvc5":
		s.Args = []string{"--incremental", "--lang=smt2", "--produce-models", fmt.Sprintf("--tlimit-per=%d", timeoutS*1000)}
	}
	s.start()
	return s
}

func (s *Solver) start() {
	s.cmd = exec.Command(s.Name, s.Args...)
	var err error
	s.inRaw, err = s.cmd.StdinPipe()
	if err != nil {
		panic(err)
	}
	s.in = bufio.NewWriterSize(s.inRaw, 1<<16)
	o, err := s.cmd.StdoutPipe()
	if err != nil {
		panic(err)
	}
	s.cmd.Stderr = nil
	s.out = bufio.NewReaderSize(o, 1<<20)
	if err := s.cmd.Start(); err != nil {
		panic(engineErr("cannot start solver %s: %v", s.Name, err))
	}
	s.send("(set-option :produce-models true)")
	if s.Name == "cvc5" {
		s.send("(set-logic ALL)")
	}
}

func (s *Solver) Close() {
	if s.cmd != nil {
		s.in.Flush()
		s.inRaw.Close()
		s.cmd.Process.Kill()
		s.cmd.Wait()
		s.cmd = nil
	}
}

func (s *Solver) send(line string) {
	if s.Log != nil {
		fmt.Fprintln(s.Log, line)
	}
	s.in.WriteString(line)
	s.in.WriteByte('\n')
}

func (s *Solver) readLine() string {
	s.in.Flush()
	l, err := s.out.ReadString('\n')
	if err != nil {
		panic(engineErr("solver %s died: %v", s.Name, err))
	}
	l = strings.TrimSpace(l)
	if s.Log != nil {
		fmt.Fprintln(s.Log, "; <- "+l)
	}
	return l
}

// readSexp reads one balanced s-expression (possibly multi-line).
func (s *Solver) readSexp() string {
	var sb strings.Builder
	depth := 0
	started := false
	for {
		l := s.readLine()
		sb.WriteString(l)
		sb.WriteByte(' ')
		inBar := false
		for _, c := range l {
			if c == '|' {
				inBar = !inBar
			}
			if inBar {
				continue
			}
			if c == '(' {
				depth++
				started = true
			} else if c == ')' {
				depth--
			}
		}
		if started && depth <= 0 {
			break
		}
		if !started && strings.TrimSpace(l) != "" {
			break
		}
	}
	return sb.String()
}

func (s *Solver) emit(t *Term) {
	if t.Op == "const" || s.emitted[t.ID] {
		return
	}
	for _, a := range t.Args {
		s.emit(a)
	}
	s.emitted[t.ID] = true
	if t.Op == "sym" {
		s.send(fmt.Sprintf("(declare-const %s %s)", symSMT(t.Name), t.Sort))
		return
	}
	if strings.HasPrefix(t.Op, "app:") {
		f := t.Op[4:]
		if !s.funs[f] {
			s.funs[f] = true
			s.send(fmt.Sprintf("(declare-fun %s %s)", symSMT(f), s.tb.Funs[f]))
		}
	}
	s.send(fmt.Sprintf("(define-fun t%d () %s %s)", t.ID, t.Sort, defBody(t)))
}

// Assert adds a permanent constraint.
func (s *Solver) Assert(t *Term) {
	if t.IsConst() && t.B {
		return
	}
	s.emit(t)
	s.send("(assert " + refName(t) + ")")
}

type SatResult int

const (
	ResUnsat SatResult = iota
	ResSat
	ResUnknown
)

func (r SatResult) String() string { return [...]string{"unsat", "sat", "unknown"}[r] }

// Check decides satisfiability of the conjunction of the given Bool terms.
func (s *Solver) Check(conj []*Term) SatResult {
	var names []string
	for _, c := range conj {
		if c.IsConst() {
			if !c.B {
				return ResUnsat
			}
			continue
		}
		s.emit(c)
		if c.Op == "not" && (c.Args[0].Op != "const") {
			names = append(names, "(not "+refName(c.Args[0])+")")
		} else {
			names = append(names, refName(c))
		}
	}
	start := time.Now()
	if len(names) == 0 {
		s.send("(check-sat)")
	} else {
		s.send("(check-sat-assuming (" + strings.Join(names, " ") + "))")
	}
	var res SatResult
	// watchdog: the solver's own soft timeout does not fire inside some preprocessing steps
	proc := s.cmd.Process
	killed := false
	wd := time.AfterFunc(time.Duration(s.TimeoutS+30)*time.Second, func() {
		killed = true
		proc.Kill()
	})
	defer wd.Stop()
	defer func() {
		if r := recover(); r != nil {
			if killed {
				panic(engineErr("solver %s exceeded the hard time limit of %d s on one query (killed); result inconclusive", s.Name, s.TimeoutS+30))
			}
			panic(r)
		}
	}()
	for {
		l := s.readLine()
		if l == "" {
			continue
		}
		if strings.HasPrefix(l, "(error") {
			panic(engineErr("solver error: %s", l))
		}
		switch l {
		case "sat":
			res = ResSat
		case "unsat":
			res = ResUnsat
		case "unknown", "timeout":
			res = ResUnknown
		default:
			panic(engineErr("unexpected solver output: %s", l))
		}
		break
	}
	s.Queries++
	s.Seconds += time.Since(start).Seconds()
	switch res {
	case ResSat:
		s.Sat++
	case ResUnsat:
		s.Unsat++
	default:
		s.Unknown++
	}
	return res
}

// Values returns the model values (as SMT-LIB text) of the given terms after a sat answer.
func (s *Solver) Values(ts []*Term) map[string]string {
	out := map[string]string{}
	if len(ts) == 0 {
		return out
	}
	var names []string
	for _, t := range ts {
		s.emit(t)
		names = append(names, refName(t))
	}
	s.send("(get-value (" + strings.Join(names, " ") + "))")
	// model evaluation can hang as well (seen: > 50 min inside get-value): same watchdog as for check-sat
	proc := s.cmd.Process
	killed := false
	wd := time.AfterFunc(time.Duration(s.TimeoutS+30)*time.Second, func() {
		killed = true
		proc.Kill()
	})
	var resp string
	func() {
		defer wd.Stop()
		defer func() {
			if r := recover(); r != nil {
				if killed {
					panic(engineErr("solver %s exceeded the hard time limit of %d s on get-value (killed); result inconclusive", s.Name, s.TimeoutS+30))
				}
				panic(r)
			}
		}()
		resp = s.readSexp()
	}()
	if strings.HasPrefix(strings.TrimSpace(resp), "(error") {
		panic(engineErr("solver error on get-value: %s", resp))
	}
	toks := tokenize(resp)
	// parse ((name value) (name value) ...)
	pos := 0
	var parse func() interface{}
	parse = func() interface{} {
		if toks[pos] == "(" {
			pos++
			var l []interface{}
			for toks[pos] != ")" {
				l = append(l, parse())
			}
			pos++
			return l
		}
		t := toks[pos]
		pos++
		return t
	}
	top, ok := parse().([]interface{})
	if !ok {
		panic(engineErr("cannot parse get-value response: %s", resp))
	}
	for i, pr := range top {
		p, ok := pr.([]interface{})
		if !ok || len(p) != 2 {
			continue
		}
		if i < len(ts) {
			key := ts[i].Name
			if ts[i].Op != "sym" {
				key = refName(ts[i])
			}
			out[key] = sexpString(p[1])
		}
	}
	return out
}

func tokenize(s string) []string {
	var toks []string
	i := 0
	for i < len(s) {
		c := s[i]
		switch {
		case c == ' ' || c == '\n' || c == '\t' || c == '\r':
			i++
		case c == '(' || c == ')':
			toks = append(toks, string(c))
			i++
		case c == '|':
			j := i + 1
			for j < len(s) && s[j] != '|' {
				j++
			}
			toks = append(toks, s[i:j+1])
			i = j + 1
		default:
			j := i
			for j < len(s) && !strings.ContainsRune(" \n\t\r()", rune(s[j])) {
				j++
			}
			toks = append(toks, s[i:j])
			i = j
		}
	}
	return toks
}

func sexpString(x interface{}) string {
	switch v := x.(type) {
	case string:
		return v
	case []interface{}:
		var parts []string
		for _, e := range v {
			parts = append(parts, sexpString(e))
		}
		return "(" + strings.Join(parts, " ") + ")"
	}
	return "?"
}
