package main

// Bounded model checking of the composed thread automata with a symbolic scheduler.
//
// State at step i: one SMT variable group per shared mutable location (shape index + scalar
// leaves), per map key (presence + slot), per mutex (writer bit, reader count), per channel
// (closed bit) and one program counter per thread. Step i fires the edge selected by sel_i
// (an SMT variable — the schedule is symbolic) or idles; idling is only allowed as a suffix.
// The number of steps is the sum of the longest paths of all automata (they are loop-free),
// which is a completeness threshold for reachability.

import (
	"bufio"
	"bytes"
	"fmt"
	"os"
	"regexp"
	"sort"
	"strings"
	"sync"
	"time"
)

type BMCQuery struct {
	Config  string  `json:"config"`
	Kind    string  `json:"kind"`
	Label   string  `json:"label"`
	Result  string  `json:"result"`
	Seconds float64 `json:"seconds"`
}

type bmc struct {
	e                     *Engine
	tb                    *TermBuilder
	reg                   *l2Registry
	cfg                   *l2Config
	harness               string
	threads               []*l2Thread
	nodeID                map[int]map[string]int
	term                  map[int]map[int]bool // terminal node ids per thread
	edges                 []*l2Edge
	depth                 map[*l2Edge]int
	K                     int
	cons                  []*Term // the transition system unrolled
	selVar                []*Term
	viol                  map[string][]*Term // label -> disjuncts
	violPos               map[string]string
	reach                 map[string][]*Term
	enabled               [][]*Term // [step][edge index] enabledness with substitution (computed lazily)
	locs                  []string
	solver                *Solver
	reachQ, knownQ, violQ []prepQuery
	anyViol               *Term
	info                  string
	prefixOnce            sync.Once
	prefix                []byte
	prefixEmitted         map[int]bool
	prefixFuns            map[string]bool
	statMu                sync.Mutex
	queries               int
	solverS               float64
	primary               *Solver
	fallback              *Solver
	fallbacks             []string
	po                    *po
	reachMemo             map[[2]int]bool
	bySrcAll              map[int]map[string][]*l2Edge
	stepEnc               bool
	guards                map[*l2Edge]*Term
	latest                map[*l2Edge]int
	latestLocal           map[*l2Edge]int
	dumpN                 int
	vars                  map[string]Sort
	carry                 []map[string][]struct {
		fire *Term
		val  *Term
	}
}

const pcW = 16

func newBMC(e *Engine, reg *l2Registry, cfg *l2Config, harness string) *bmc {
	b := &bmc{e: e, tb: e.tb, reg: reg, cfg: cfg, harness: harness, nodeID: map[int]map[string]int{}, term: map[int]map[int]bool{},
		guards: map[*l2Edge]*Term{}, latest: map[*l2Edge]int{}, latestLocal: map[*l2Edge]int{}, depth: map[*l2Edge]int{}, viol: map[string][]*Term{}, violPos: map[string]string{}, reach: map[string][]*Term{}}
	var tids []int
	for tid := range cfg.Threads {
		tids = append(tids, tid)
	}
	sort.Ints(tids)
	for _, tid := range tids {
		t := cfg.Threads[tid]
		mergeAutomaton(t)
		b.threads = append(b.threads, t)
		ids := map[string]int{}
		b.nodeID[tid] = ids
		b.term[tid] = map[int]bool{}
		add := func(k string) int {
			if _, ok := ids[k]; !ok {
				ids[k] = len(ids) + 1 // 0 = unspawned
			}
			return ids[k]
		}
		if t.Root != "" {
			add(t.Root)
		}
		var dsts []string
		for d := range t.Edges {
			dsts = append(dsts, d)
		}
		sort.Strings(dsts)
		for _, d := range dsts {
			ed := t.Edges[d]
			add(ed.Src)
			add(ed.Dst)
			ed.ID = len(b.edges) + 1
			b.edges = append(b.edges, ed)
			if ed.Terminal {
				b.term[tid][ids[ed.Dst]] = true
			}
		}
	}
	// depths and step bound (automata are DAGs after merging)
	total := 0
	maxDepth := map[int]int{}
	for _, t := range b.threads {
		bySrc := map[string][]*l2Edge{}
		hasIn := map[string]bool{}
		for _, ed := range t.Edges {
			bySrc[ed.Src] = append(bySrc[ed.Src], ed)
			hasIn[ed.Dst] = true
		}
		minD := map[string]int{}
		maxD := map[string]int{}
		var roots []string
		for k := range bySrc {
			if !hasIn[k] {
				roots = append(roots, k)
			}
		}
		// shortest distance (BFS)
		queue := append([]string{}, roots...)
		for _, r := range roots {
			minD[r] = 0
		}
		for len(queue) > 0 {
			k := queue[0]
			queue = queue[1:]
			for _, ed := range bySrc[k] {
				if _, ok := minD[ed.Dst]; !ok {
					minD[ed.Dst] = minD[k] + 1
					queue = append(queue, ed.Dst)
				}
			}
		}
		// longest distance (memoised DFS from roots over the DAG)
		var longest func(k string) int // longest path starting at k (in edges)
		memo := map[string]int{}
		longest = func(k string) int {
			if v, ok := memo[k]; ok {
				return v
			}
			best := 0
			for _, ed := range bySrc[k] {
				if l := 1 + longest(ed.Dst); l > best {
					best = l
				}
			}
			memo[k] = best
			return best
		}
		maxd := 0
		for _, r := range roots {
			if l := longest(r); l > maxd {
				maxd = l
			}
		}
		// longest distance from a root to each node: maxd - longest(node) is an upper bound good enough
		for k := range bySrc {
			maxD[k] = maxd - longest(k)
		}
		for _, ed := range t.Edges {
			b.depth[ed] = minD[ed.Src]
			b.latestLocal[ed] = maxD[ed.Src]
		}
		total += maxd
		maxDepth[t.Tid] = maxd
	}
	b.K = total
	for _, t := range b.threads {
		for _, ed := range t.Edges {
			b.latest[ed] = b.latestLocal[ed] + (total - maxDepth[t.Tid])
		}
	}
	return b
}

// ---------------------------------------------------------------------------
// state variables
// ---------------------------------------------------------------------------

func (b *bmc) sv(name string, s Sort, step int) *Term {
	return b.tb.Sym(fmt.Sprintf("s!%s!%d", name, step), s)
}

type stateView struct {
	b    *bmc
	step int
	cur  map[string]*Term
	sort map[string]Sort
}

func (b *bmc) view(step int) *stateView {
	return &stateView{b: b, step: step, cur: map[string]*Term{}, sort: map[string]Sort{}}
}

func (v *stateView) get(name string, s Sort) *Term {
	if t, ok := v.cur[name]; ok {
		return t
	}
	return v.b.sv(name, s, v.step)
}

func (v *stateView) set(name string, s Sort, t *Term) {
	v.cur[name] = t
	v.sort[name] = s
}

func leafVar(loc string, s Sort, k int) string {
	return fmt.Sprintf("lf:%s:%s:%d", loc, strings.ReplaceAll(s.String(), " ", ""), k)
}

// leafVars returns the state variable names holding the leaves of a value of shape sh stored at loc.
func leafVars(loc string, sh *Shape) ([]string, []Sort) {
	sorts := sh.leafSorts(nil)
	cnt := map[string]int{}
	names := make([]string, len(sorts))
	for i, s := range sorts {
		k := cnt[s.String()]
		cnt[s.String()] = k + 1
		names[i] = leafVar(loc, s, k)
	}
	return names, sorts
}

func (b *bmc) nshapes(loc string) int { return len(b.reg.shapes[loc]) }

// readLoc binds the placeholders of a load-like op to the content of loc in view v.
func (b *bmc) readLoc(v *stateView, loc string, op *microOp, sigma map[*Term]*Term, binds *[]*Term) {
	tb := b.tb
	if op.ShapeP != nil {
		cur := v.get("sh:"+loc, BV(8))
		sigma[op.ShapeP] = cur
		*binds = append(*binds, tb.Eq(op.ShapeP, cur))
	} else if b.nshapes(loc) > 1 && op.ShapeI >= 0 {
		// the exploration saw a single shape but the registry grew later: cannot happen after the fixpoint
		panic(engineErr("BMC: stale exploration of %s (registry grew)", loc))
	}
	if op.ShapeI < 0 || op.ShapeI >= b.nshapes(loc) {
		return
	}
	names, sorts := leafVars(loc, b.reg.shapes[loc][op.ShapeI])
	for i, ph := range op.Leaves {
		cur := v.get(names[i], sorts[i])
		sigma[ph] = cur
		*binds = append(*binds, tb.Eq(ph, cur))
	}
}

func (b *bmc) writeLoc(v *stateView, loc string, shapeI int, sh *Shape, leaves []*Term) {
	if b.nshapes(loc) > 1 {
		v.set("sh:"+loc, BV(8), b.tb.BVConst(uint64(shapeI), 8))
	}
	names, sorts := leafVars(loc, sh)
	for i, l := range leaves {
		v.set(names[i], sorts[i], l)
	}
}

type edgeInst struct {
	enabled *Term   // pc + blocking conditions + guards, own placeholders substituted by state terms
	binds   []*Term // placeholder = state term
	next    *stateView
	viols   map[string]*Term // label -> condition (relative to firing)
	reaches []string
}

func (b *bmc) pcVar(tid int) string { return fmt.Sprintf("pc:%d", tid) }

func (b *bmc) allTerminalExcept(v *stateView, except int) *Term {
	var cs []*Term
	for _, t := range b.threads {
		if t.Tid == except {
			continue
		}
		pc := v.get(b.pcVar(t.Tid), BV(pcW))
		var alts []*Term
		if t.Spawned {
			alts = append(alts, b.tb.Eq(pc, b.tb.BVConst(0, pcW)))
		}
		for n := range b.term[t.Tid] {
			alts = append(alts, b.tb.Eq(pc, b.tb.BVConst(uint64(n), pcW)))
		}
		cs = append(cs, b.tb.Or(alts...))
	}
	return b.tb.And(cs...)
}

// inst instantiates edge ed on the state of the given step.
func (b *bmc) inst(ed *l2Edge, step int, substitute bool) *edgeInst {
	tb := b.tb
	v := b.view(step)
	in := &edgeInst{viols: map[string]*Term{}}
	sigma := map[*Term]*Term{}
	memo := map[*Term]*Term{}
	conds := []*Term{tb.Eq(v.get(b.pcVar(ed.Tid), BV(pcW)), tb.BVConst(uint64(b.nodeID[ed.Tid][ed.Src]), pcW))}
	th := b.cfg.Threads[ed.Tid]
	if th.Name == "finally" && ed.Src == th.Root {
		conds = append(conds, b.allTerminalExcept(v, ed.Tid))
	}
	sub := func(t *Term) *Term {
		if !substitute {
			// firing mode: placeholders are global constants bound by equalities when the edge fires
			return t
		}
		memo = map[*Term]*Term{}
		return tb.Subst(t, sigma, memo)
	}
	var soFar []*Term // conditions under which execution inside the block reaches the current op
	for oi := range ed.Ops {
		op := &ed.Ops[oi]
		switch op.Kind {
		case "load":
			b.readLoc(v, op.Loc, op, sigma, &in.binds)
		case "store":
			ls := make([]*Term, len(op.Leaves))
			for i, l := range op.Leaves {
				ls[i] = sub(l)
			}
			b.writeLoc(v, op.Loc, op.ShapeI, op.Shape, ls)
		case "mlookup":
			pn := fmt.Sprintf("mp:%s:%d", op.Loc, op.KeyIx)
			cur := v.get(pn, BoolSort)
			sigma[op.Res] = cur
			in.binds = append(in.binds, tb.Eq(op.Res, cur))
			if op.ShapeI >= 0 {
				b.readLoc(v, fmt.Sprintf("%s{%d}", op.Loc, op.KeyIx), op, sigma, &in.binds)
			}
		case "mupdate":
			v.set(fmt.Sprintf("mp:%s:%d", op.Loc, op.KeyIx), BoolSort, tb.Bool(true))
			ls := make([]*Term, len(op.Leaves))
			for i, l := range op.Leaves {
				ls[i] = sub(l)
			}
			b.writeLoc(v, fmt.Sprintf("%s{%d}", op.Loc, op.KeyIx), op.ShapeI, op.Shape, ls)
		case "mdelete":
			v.set(fmt.Sprintf("mp:%s:%d", op.Loc, op.KeyIx), BoolSort, tb.Bool(false))
		case "mlen":
			sum := tb.BVConst(0, 64)
			for u := range b.reg.mapKeys[op.Loc] {
				p := v.get(fmt.Sprintf("mp:%s:%d", op.Loc, u), BoolSort)
				sum = tb.IntBin("+", u64, sum, tb.Ite(p, tb.BVConst(1, 64), tb.BVConst(0, 64)), nil)
			}
			sigma[op.Res] = sum
			in.binds = append(in.binds, tb.Eq(op.Res, sum))
		case "mnext":
			r := tb.BVConst(255, 8)
			keys := b.reg.mapKeys[op.Loc]
			for u := len(keys) - 1; u >= op.KeyIx; u-- {
				p := v.get(fmt.Sprintf("mp:%s:%d", op.Loc, u), BoolSort)
				r = tb.Ite(p, tb.BVConst(uint64(u), 8), r)
			}
			sigma[op.Res] = r
			in.binds = append(in.binds, tb.Eq(op.Res, r))
		case "lock":
			w := v.get("mw:"+op.Loc, BoolSort)
			r := v.get("mr:"+op.Loc, BV(8))
			conds = append(conds, tb.Not(w), tb.Eq(r, tb.BVConst(0, 8)))
			v.set("mw:"+op.Loc, BoolSort, tb.Bool(true))
		case "unlock":
			w := v.get("mw:"+op.Loc, BoolSort)
			in.addViol(tb, "auto:unlock of unlocked mutex", tb.And(append(append([]*Term{}, soFar...), tb.Not(w))...))
			v.set("mw:"+op.Loc, BoolSort, tb.Bool(false))
		case "rlock":
			w := v.get("mw:"+op.Loc, BoolSort)
			r := v.get("mr:"+op.Loc, BV(8))
			conds = append(conds, tb.Not(w))
			v.set("mr:"+op.Loc, BV(8), tb.IntBin("+", IntTy{8, false}, r, tb.BVConst(1, 8), nil))
		case "runlock":
			r := v.get("mr:"+op.Loc, BV(8))
			in.addViol(tb, "auto:RUnlock of unlocked RWMutex", tb.And(append(append([]*Term{}, soFar...), tb.Eq(r, tb.BVConst(0, 8)))...))
			v.set("mr:"+op.Loc, BV(8), tb.IntBin("-", IntTy{8, false}, r, tb.BVConst(1, 8), nil))
		case "close":
			c := v.get("cc:"+op.Loc, BoolSort)
			in.addViol(tb, "auto:close of closed channel", tb.And(append(append([]*Term{}, soFar...), c)...))
			v.set("cc:"+op.Loc, BoolSort, tb.Bool(true))
		case "recv":
			conds = append(conds, v.get("cc:"+op.Loc, BoolSort))
		case "spawn":
			id, ok := b.nodeID[op.Child][op.Label]
			if !ok {
				// the child never produced a block from this root (e.g. exploration ended): still give it a node
				ids := b.nodeID[op.Child]
				if ids == nil {
					ids = map[string]int{}
					b.nodeID[op.Child] = ids
				}
				ids[op.Label] = len(ids) + 1
				id = ids[op.Label]
			}
			v.set(b.pcVar(op.Child), BV(pcW), tb.BVConst(uint64(id), pcW))
		case "assert":
			c := sub(op.Cond)
			in.addViol(tb, op.Label, tb.And(append(append([]*Term{}, soFar...), tb.Not(c))...))
			b.violPos[op.Label] = op.Pos
			in.reaches = append(in.reaches, op.Label)
			soFar = append(soFar, c)
		case "reach":
			in.reaches = append(in.reaches, op.Label)
		case "mark", "end":
		default:
			panic(engineErr("BMC: unknown micro-op %s", op.Kind))
		}
	}
	if substitute {
		for _, g := range ed.Guard {
			conds = append(conds, sub(g))
		}
	}
	in.enabled = tb.And(conds...)
	v.set(b.pcVar(ed.Tid), BV(pcW), tb.BVConst(uint64(b.nodeID[ed.Tid][ed.Dst]), pcW))
	in.next = v
	return in
}

func (in *edgeInst) addViol(tb *TermBuilder, label string, c *Term) {
	if old, ok := in.viols[label]; ok {
		in.viols[label] = tb.Or(old, c)
	} else {
		in.viols[label] = c
	}
}

// ---------------------------------------------------------------------------
// unrolling
// ---------------------------------------------------------------------------

func (b *bmc) build() {
	tb := b.tb
	// initial state
	v0 := b.view(0)
	add := func(t *Term) { b.cons = append(b.cons, t) }
	for _, c := range b.cfg.SetupPC {
		add(c)
	}
	for loc, iv := range b.cfg.Init {
		si, ok := b.reg.shapeIdx[loc][iv.Shape.Key()]
		if !ok {
			panic(engineErr("BMC: initial shape of %s unknown", loc))
		}
		if b.nshapes(loc) > 1 {
			add(tb.Eq(v0.get("sh:"+loc, BV(8)), tb.BVConst(uint64(si), 8)))
		}
		names, sorts := leafVars(loc, iv.Shape)
		for i, l := range iv.Leaves {
			add(tb.Eq(v0.get(names[i], sorts[i]), l))
		}
	}
	for m, keys := range b.reg.mapKeys {
		if !b.reg.mutable[m] {
			continue
		}
		init := b.cfg.InitMaps[m]
		for u := range keys {
			p := v0.get(fmt.Sprintf("mp:%s:%d", m, u), BoolSort)
			if iv, ok := init[u]; ok {
				add(p)
				slot := fmt.Sprintf("%s{%d}", m, u)
				si := b.reg.shapeIdx[slot][iv.Shape.Key()]
				if b.nshapes(slot) > 1 {
					add(tb.Eq(v0.get("sh:"+slot, BV(8)), tb.BVConst(uint64(si), 8)))
				}
				names, sorts := leafVars(slot, iv.Shape)
				for i, l := range iv.Leaves {
					add(tb.Eq(v0.get(names[i], sorts[i]), l))
				}
			} else {
				add(tb.Not(p))
			}
		}
	}
	for loc, kind := range b.reg.locKind {
		switch kind {
		case "mutex":
			add(tb.Not(v0.get("mw:"+loc, BoolSort)))
			add(tb.Eq(v0.get("mr:"+loc, BV(8)), tb.BVConst(0, 8)))
		case "chan":
			if b.cfg.InitChans[loc] {
				add(v0.get("cc:"+loc, BoolSort))
			} else {
				add(tb.Not(v0.get("cc:"+loc, BoolSort)))
			}
		}
	}
	for _, t := range b.threads {
		id := 0
		if t.Root != "" {
			id = b.nodeID[t.Tid][t.Root]
		}
		add(tb.Eq(v0.get(b.pcVar(t.Tid), BV(pcW)), tb.BVConst(uint64(id), pcW)))
	}
	// steps
	b.selVar = make([]*Term, b.K)
	for i := 0; i < b.K; i++ {
		b.selVar[i] = tb.Sym(fmt.Sprintf("sel!%d", i), BV(pcW))
	}
	b.enabled = make([][]*Term, b.K+1)
	for i := 0; i < b.K; i++ {
		sel := b.selVar[i]
		add(tb.Cmp("<=", IntTy{pcW, false}, sel, tb.BVConst(uint64(len(b.edges)), pcW)))
		if i+1 < b.K {
			add(tb.Implies(tb.Eq(sel, tb.BVConst(0, pcW)), tb.Eq(b.selVar[i+1], tb.BVConst(0, pcW))))
		}
		writers := map[string][]struct {
			fire *Term
			val  *Term
		}{}
		sorts := map[string]Sort{}
		b.enabled[i] = make([]*Term, len(b.edges))
		for ei, ed := range b.edges {
			if b.depth[ed] > i {
				add(tb.Not(tb.Eq(sel, tb.BVConst(uint64(ed.ID), pcW))))
				b.enabled[i][ei] = tb.Bool(false)
				continue
			}
			if i > b.latest[ed] {
				add(tb.Not(tb.Eq(sel, tb.BVConst(uint64(ed.ID), pcW))))
				b.enabled[i][ei] = tb.Bool(false)
				continue
			}
			in := b.inst(ed, i, false)
			b.enabled[i][ei] = in.enabled
			fire := tb.Eq(sel, tb.BVConst(uint64(ed.ID), pcW))
			add(tb.Implies(fire, tb.And(append([]*Term{in.enabled, b.guardOnce(ed)}, in.binds...)...)))
			for name, val := range in.next.cur {
				writers[name] = append(writers[name], struct {
					fire *Term
					val  *Term
				}{fire, val})
				sorts[name] = in.next.sort[name]
			}
			for label, c := range in.viols {
				b.viol[label] = append(b.viol[label], tb.And(fire, c))
			}
			for _, l := range in.reaches {
				b.reach[l] = append(b.reach[l], fire)
			}
		}
		// frame: every variable that some edge writes gets its next-step definition; variables never
		// written keep their step-0 name (see sv: unwritten variables are aliased below)
		for name, ws := range writers {
			s := sorts[name]
			cur := b.sv(name, s, i)
			val := cur
			for _, w := range ws {
				val = tb.Ite(w.fire, w.val, val)
			}
			add(tb.Eq(b.sv(name, s, i+1), val))
			b.noteVar(name, s)
		}
		// variables written at other steps but not at this one must be carried over
		b.carry = append(b.carry, writers)
	}
	// carry-over equalities for variables not written at a step
	for i := 0; i < b.K; i++ {
		for name, s := range b.vars {
			if _, ok := b.carry[i][name]; !ok {
				add(tb.Eq(b.sv(name, s, i+1), b.sv(name, s, i)))
			}
		}
	}
}

func (b *bmc) noteVar(name string, s Sort) {
	if b.vars == nil {
		b.vars = map[string]Sort{}
	}
	b.vars[name] = s
}

func (b *bmc) guardOnce(ed *l2Edge) *Term {
	if g, ok := b.guards[ed]; ok {
		return g
	}
	g := b.tb.And(ed.Guard...)
	b.guards[ed] = g
	return g
}

// noneEnabledAt: no edge can fire in the state of the given step.
func (b *bmc) noneEnabledAt(step int) *Term {
	var cs []*Term
	for _, ed := range b.edges {
		in := b.inst(ed, step, true)
		cs = append(cs, b.tb.Not(in.enabled))
	}
	return b.tb.And(cs...)
}

func (b *bmc) notAllTerminalAt(step int) *Term {
	return b.tb.Not(b.allTerminalExcept(b.view(step), -1))
}

// ---------------------------------------------------------------------------
// queries
// ---------------------------------------------------------------------------

// oneShot decides cons ∧ extra with a fresh, non-incremental solver process (z3's incremental
// core showed erratic run times on these formulas: the same query took 0.1 s or 6 min depending
// on the queries before it). The constraint system is emitted once per configuration and
// replayed as text. Portfolio: z3, then cvc5, then z3-new.
func (b *bmc) oneShot(extra []*Term) (SatResult, *Solver, float64) {
	t0 := time.Now()
	b.prefixOnce.Do(func() {
		ps := &Solver{tb: b.tb, emitted: map[int]bool{}, funs: map[string]bool{}, Name: "prefix"}
		var buf bytes.Buffer
		ps.in = bufio.NewWriter(&buf)
		for _, c := range b.cons {
			ps.Assert(c)
		}
		ps.in.Flush()
		b.prefix = buf.Bytes()
		b.prefixEmitted = ps.emitted
		b.prefixFuns = ps.funs
		if d := os.Getenv("SYMGO_DUMP"); d != "" {
			os.WriteFile(fmt.Sprintf("%s/%s-%s.smt2", d, b.harness, b.cfg.Key), b.prefix, 0o644)
		}
	})
	if d := os.Getenv("SYMGO_DUMP"); d != "" {
		b.statMu.Lock()
		b.dumpN++
		n := b.dumpN
		b.statMu.Unlock()
		var buf bytes.Buffer
		ds := &Solver{tb: b.tb, emitted: map[int]bool{}, funs: map[string]bool{}, Name: "dump"}
		ds.in = bufio.NewWriter(&buf)
		for k := range b.prefixEmitted {
			ds.emitted[k] = true
		}
		for k := range b.prefixFuns {
			ds.funs[k] = true
		}
		for _, c := range extra {
			ds.Assert(c)
		}
		ds.send("(check-sat)")
		ds.in.Flush()
		os.WriteFile(fmt.Sprintf("%s/%s-%s-q%d.smt2", d, b.harness, b.cfg.Key, n), append(append([]byte{}, b.prefix...), buf.Bytes()...), 0o644)
	}
	var answers []string
	for _, name := range []string{"z3", "cvc5", "z3-new"} {
		fs := &Solver{tb: b.tb, emitted: map[int]bool{}, funs: map[string]bool{}, Name: name, TimeoutS: b.e.solver.TimeoutS}
		switch name {
		case "cvc5":
			fs.Args = []string{"--lang=smt2", "--produce-models", fmt.Sprintf("--tlimit=%d", fs.TimeoutS*1000)}
		default:
			fs.Args = []string{"-in", fmt.Sprintf("-t:%d", fs.TimeoutS*1000)}
		}
		fs.start()
		for k := range b.prefixEmitted {
			fs.emitted[k] = true
		}
		for k := range b.prefixFuns {
			fs.funs[k] = true
		}
		fs.in.Write(b.prefix)
		for _, c := range extra {
			fs.Assert(c)
		}
		r := ResUnknown
		func() {
			defer func() {
				if x := recover(); x != nil {
					r = ResUnknown
				}
			}()
			r = fs.Check(nil)
		}()
		b.statMu.Lock()
		b.queries++
		b.solverS += fs.Seconds
		if name != "z3" {
			b.fallbacks = append(b.fallbacks, fmt.Sprintf("%s:%s", name, r))
		}
		b.statMu.Unlock()
		answers = append(answers, name+":"+r.String())
		if r != ResUnknown {
			return r, fs, time.Since(t0).Seconds()
		}
		fs.Close()
	}
	return ResUnknown, nil, time.Since(t0).Seconds()
}

type nopCloser struct{ w *os.File }

func (n nopCloser) Write(p []byte) (int, error) { return n.w.Write(p) }
func (n nopCloser) Close() error                { return nil }

func (b *bmc) traceFrom(fs *Solver) []string {
	if !b.stepEnc {
		return b.poTraceFrom(fs)
	}
	return nil
}

func (b *bmc) trace() []string {
	if !b.stepEnc {
		return b.poTrace()
	}
	vals := b.solver.Values(b.selVar)
	var out []string
	for i, sv := range b.selVar {
		s, ok := vals[sv.Name]
		if !ok {
			continue
		}
		id := int(parseSMTInt(s).Int64())
		if id == 0 {
			continue
		}
		ed := b.edges[id-1]
		var ops []string
		for _, op := range ed.Ops {
			d := op.Kind
			if op.Loc != "" {
				d += " " + op.Loc
			}
			if op.Kind == "mlookup" || op.Kind == "mupdate" || op.Kind == "mdelete" {
				d += fmt.Sprintf("{%s}", b.reg.mapKeys[op.Loc][op.KeyIx].key)
			}
			if op.Label != "" {
				d += " [" + op.Label + "]"
			}
			if op.Pos != "" {
				d += " @" + op.Pos
			}
			ops = append(ops, d)
		}
		out = append(out, fmt.Sprintf("step %d: thread %d (%s): %s", i, ed.Tid, b.cfg.Threads[ed.Tid].Name, strings.Join(ops, "; ")))
	}
	return out
}

func (b *bmc) dumpAutomata() {
	for _, t := range b.threads {
		fmt.Fprintf(os.Stderr, "thread %d %s root=%s edges=%d\n", t.Tid, t.Name, t.Root, len(t.Edges))
		bySrc := map[string][]*l2Edge{}
		for _, ed := range t.Edges {
			bySrc[ed.Src] = append(bySrc[ed.Src], ed)
		}
		var walk func(k string, ind string)
		walk = func(k string, ind string) {
			eds := bySrc[k]
			sort.Slice(eds, func(i, j int) bool { return eds[i].Dst < eds[j].Dst })
			for _, ed := range eds {
				var ops []string
				for _, op := range ed.Ops {
					ops = append(ops, op.Kind+" "+op.Loc+" "+op.Label+"@"+op.Pos)
				}
				var gs []string
				for _, g := range ed.Guard {
					gs = append(gs, Pretty(g, 3))
				}
				fmt.Fprintf(os.Stderr, "%s[%d] %s  IF %s\n", ind, b.nodeID[t.Tid][ed.Dst], strings.Join(ops, "; "), strings.Join(gs, " & "))
				walk(ed.Dst, ind+"  ")
			}
		}
		hasIn := map[string]bool{}
		for _, ed := range t.Edges {
			hasIn[ed.Dst] = true
		}
		for k := range bySrc {
			if !hasIn[k] {
				walk(k, "  ")
			}
		}
	}
}

type prepQuery struct {
	kind, label string
	terms       []*Term
	knownID     string
	knownClass  string
}

// prepare builds the constraint system and every query term (sequential: uses the term builder).
func (b *bmc) prepare(res *L2Result) {
	tb := b.tb
	if os.Getenv("SYMGO_AUTOMATA") != "" {
		b.dumpAutomata()
	}
	t0 := time.Now()
	b.stepEnc = os.Getenv("SYMGO_STEP") != "" || b.cfg.Options["step-encoding"]
	if b.stepEnc {
		b.build()
	} else {
		b.buildPO()
		b.vars = map[string]Sort{}
		for n := range b.po.locs {
			b.vars[n] = BoolSort
		}
	}
	res.Threads += len(b.threads)
	res.Edges += len(b.edges)
	for _, ids := range b.nodeID {
		res.Nodes += len(ids)
	}
	if b.K > res.Steps {
		res.Steps = b.K
	}
	res.Locations = len(b.vars)
	if b.cfg.Options["deadlock"] && labelSelected("auto:no-deadlock") {
		label := "auto:no-deadlock"
		if b.stepEnc {
			b.viol[label] = append(b.viol[label], tb.And(b.noneEnabledAt(b.K), b.notAllTerminalAt(b.K)))
		} else {
			b.viol[label] = append(b.viol[label], b.poDeadlock())
		}
	}
	if b.cfg.Options["races"] {
		if b.stepEnc {
			b.addRaceChecks()
		} else {
			b.poRaces()
		}
	}
	var labels []string
	for l := range b.reach {
		labels = append(labels, l)
	}
	sort.Strings(labels)
	for _, l := range labels {
		if !labelSelected(l) {
			continue
		}
		b.reachQ = append(b.reachQ, prepQuery{kind: "reach", label: l, terms: []*Term{tb.Or(b.reach[l]...)}})
	}
	labels = nil
	for l := range b.viol {
		labels = append(labels, l)
	}
	sort.Strings(labels)
	var all []*Term
	for _, l := range labels {
		if !labelSelected(l) {
			continue
		}
		bad := tb.Or(b.viol[l]...)
		var knownConds []*Term
		directKnown := ""
		for _, k := range b.e.known {
			if k.Status != "fixed" && k.Class == "" && k.Label == l && (k.Harness == b.harness || k.Harness == "*") {
				directKnown = k.ID
			}
		}
		if directKnown != "" {
			b.knownQ = append(b.knownQ, prepQuery{kind: "known", label: l, terms: []*Term{bad}, knownID: directKnown, knownClass: "(any)"})
			continue
		}
		for _, k := range b.e.known {
			if k.Status == "fixed" || k.Harness != b.harness || k.Label != l {
				continue
			}
			for _, c := range b.cfg.Classes {
				if c.name == k.Class {
					b.knownQ = append(b.knownQ, prepQuery{kind: "known", label: l, terms: []*Term{bad, c.cond}, knownID: k.ID, knownClass: k.Class})
					knownConds = append(knownConds, c.cond)
				}
			}
		}
		q := []*Term{bad}
		if len(knownConds) > 0 {
			q = append(q, tb.Not(tb.Or(knownConds...)))
		}
		b.violQ = append(b.violQ, prepQuery{kind: "violation", label: l, terms: q})
		all = append(all, tb.And(q...))
	}
	b.anyViol = tb.Or(all...)
	b.info = fmt.Sprintf("config %q: threads=%d edges=%d steps=%d locations=%d constraints=%d build=%.1fs", b.cfg.Key, len(b.threads), len(b.edges), b.K, len(b.vars), len(b.cons), time.Since(t0).Seconds())
}

// solve discharges the prepared queries; every query is an independent one-shot solver run,
// all of them (over all configurations) share one worker pool.
func (b *bmc) solve(res *L2Result, mu *sync.Mutex, sem chan struct{}) {
	mu.Lock()
	res.CfgInfo = append(res.CfgInfo, b.info)
	mu.Unlock()
	if os.Getenv("SYMGO_PROGRESS") != "" {
		fmt.Fprintf(os.Stderr, "[%s] BMC %s\n", b.harness, b.info)
	}
	record := func(kind, label string, r SatResult, s float64) {
		mu.Lock()
		res.Queries = append(res.Queries, BMCQuery{b.cfg.Key, kind, label, r.String(), s})
		mu.Unlock()
		if os.Getenv("SYMGO_PROGRESS") != "" {
			fmt.Fprintf(os.Stderr, "[%s]   %s %s %q: %s %.1fs\n", b.harness, b.cfg.Key, kind, label, r, s)
		}
	}
	rec := func(l string) *AssertRec {
		r := res.Asserts[l]
		if r == nil {
			r = &AssertRec{Label: l}
			res.Asserts[l] = r
		}
		return r
	}
	var wg sync.WaitGroup
	var errMu sync.Mutex
	var firstErr interface{}
	task := func(f func()) {
		wg.Add(1)
		go func() {
			defer wg.Done()
			sem <- struct{}{}
			defer func() { <-sem }()
			defer func() {
				if x := recover(); x != nil {
					errMu.Lock()
					if firstErr == nil {
						firstErr = x
					}
					errMu.Unlock()
				}
			}()
			f()
		}()
	}
	// sanity: the system itself is satisfiable
	task(func() {
		r, fs, s := b.oneShot(nil)
		if fs != nil {
			fs.Close()
		}
		record("sanity", "transition system satisfiable", r, s)
		if r != ResSat {
			panic(engineErr("BMC: transition system of configuration %s is not satisfiable (%s)", b.cfg.Key, r))
		}
	})
	for qi, q := range b.reachQ {
		qi, q := qi, q
		task(func() {
			r, fs, s := b.oneShot(q.terms)
			record("reach", q.label, r, s)
			if r == ResSat {
				b.solver = fs
				var tr []string
				if q.label == "quiescence" || qi == len(b.reachQ)-1 {
					tr = b.traceFrom(fs)
				}
				mu.Lock()
				res.Reach[q.label]++
				if tr != nil && len(res.Witnesses) < 2 {
					res.Witnesses = append(res.Witnesses, "config "+b.cfg.Key+", witness for \""+q.label+"\":\n"+strings.Join(tr, "\n"))
				}
				mu.Unlock()
			}
			if fs != nil {
				fs.Close()
			}
			if r == ResUnknown {
				panic(engineErr("BMC: solver unknown on reachability of %q", q.label))
			}
		})
	}
	for _, q := range b.knownQ {
		q := q
		task(func() {
			r, fs, s := b.oneShot(q.terms)
			record("known", q.label+" / "+q.knownClass, r, s)
			if r == ResSat {
				v := Violation{Harness: b.harness, Label: q.label, Kind: "assert", Model: fs.Values(b.cfg.Inputs), Classes: []string{q.knownClass}, Known: q.knownID, Notes: b.traceFrom(fs), Path: b.cfg.Key}
				mu.Lock()
				res.Violations = append(res.Violations, v)
				mu.Unlock()
			}
			if fs != nil {
				fs.Close()
			}
		})
	}
	for _, q := range b.violQ {
		q := q
		task(func() {
			r, fs, s := b.oneShot(q.terms)
			record("violation", q.label, r, s)
			defer func() {
				if fs != nil {
					fs.Close()
				}
			}()
			switch r {
			case ResUnsat:
				mu.Lock()
				rec(q.label).OK++
				mu.Unlock()
			case ResUnknown:
				mu.Lock()
				rec(q.label).Unknown++
				mu.Unlock()
				panic(engineErr("BMC: solver unknown on %q", q.label))
			case ResSat:
				m := fs.Values(b.cfg.Inputs)
				tr := b.traceFrom(fs)
				var cls []string
				for _, c := range b.cfg.Classes {
					if c.cond.IsConst() {
						if c.cond.B {
							cls = append(cls, c.name)
						}
						continue
					}
					vv := fs.Values([]*Term{c.cond})
					for _, x := range vv {
						if x == "true" {
							cls = append(cls, c.name)
						}
					}
				}
				kind := "assert"
				if strings.HasPrefix(q.label, "auto:race") {
					kind = "race"
				}
				mu.Lock()
				rec(q.label).Violated++
				res.Violations = append(res.Violations, Violation{Harness: b.harness, Label: q.label, Kind: kind, Msg: b.violPos[q.label], Model: m, Classes: cls, Notes: tr, Path: b.cfg.Key})
				if len(res.Traces) < 6 {
					res.Traces = append(res.Traces, q.label+":\n  "+strings.Join(tr, "\n  "))
				}
				mu.Unlock()
			}
		})
	}
	wg.Wait()
	mu.Lock()
	res.BMCSolverS += b.solverS
	res.BMCQueries += b.queries
	res.Fallbacks = append(res.Fallbacks, b.fallbacks...)
	mu.Unlock()
	if firstErr != nil {
		panic(firstErr)
	}
}

// ---------------------------------------------------------------------------
// data races (unfused automata): two threads are simultaneously able to perform conflicting
// accesses to the same location, at least one a write, not both atomic.
// ---------------------------------------------------------------------------

type access struct {
	loc    string
	write  bool
	atomic bool
	desc   string
}

func edgeAccesses(ed *l2Edge) []access {
	var out []access
	for _, op := range ed.Ops {
		switch op.Kind {
		case "load":
			out = append(out, access{op.Loc, false, op.Atomic, "read in " + fnOf(op.Pos)})
		case "store":
			if op.Pos == "publish" {
				continue
			}
			out = append(out, access{op.Loc, true, op.Atomic, "write in " + fnOf(op.Pos)})
		case "mlookup", "mlen", "mnext":
			out = append(out, access{op.Loc, false, op.Atomic, "map read in " + fnOf(op.Pos)})
		case "mupdate", "mdelete":
			out = append(out, access{op.Loc, true, op.Atomic, "map write in " + fnOf(op.Pos)})
		}
	}
	return out
}

func (b *bmc) addRaceChecks() {
	tb := b.tb
	type ea struct {
		ei int
		a  access
	}
	byLoc := map[string][]ea{}
	for ei, ed := range b.edges {
		for _, a := range edgeAccesses(ed) {
			byLoc[a.loc] = append(byLoc[a.loc], ea{ei, a})
		}
	}
	for loc, as := range byLoc {
		for i := 0; i < len(as); i++ {
			for j := i + 1; j < len(as); j++ {
				x, y := as[i], as[j]
				if b.edges[x.ei].Tid == b.edges[y.ei].Tid {
					continue
				}
				if !x.a.write && !y.a.write {
					continue
				}
				if x.a.atomic && y.a.atomic {
					continue
				}
				d1, d2 := x.a.desc, y.a.desc
				if d2 < d1 {
					d1, d2 = d2, d1
				}
				label := fmt.Sprintf("auto:race on %s: %s / %s", b.locClass(loc), d1, d2)
				for step := 0; step < b.K; step++ {
					e1, e2 := b.enabled[step][x.ei], b.enabled[step][y.ei]
					if e1.IsConst() && !e1.B || e2.IsConst() && !e2.B {
						continue
					}
					b.viol[label] = append(b.viol[label], tb.And(e1, e2))
				}
			}
		}
	}
}

// locClass abstracts a location name to its class (object kind and field), so that findings
// are stable across runs.
func (b *bmc) locClass(loc string) string {
	if t, ok := b.reg.objType[strings.SplitN(loc, ".", 2)[0]]; ok {
		rest := ""
		if i := strings.Index(loc, "."); i >= 0 {
			rest = loc[i:]
		}
		return t.String() + rest
	}
	return loc
}

// mergeAutomaton turns the tree of a thread into a DAG by merging nodes whose subtrees are
// identical (same micro-operations, same terms, same guards): typical after a fork whose
// branches differ only in a few blocks.
func mergeAutomaton(t *l2Thread) {
	bySrc := map[string][]*l2Edge{}
	for _, ed := range t.Edges {
		bySrc[ed.Src] = append(bySrc[ed.Src], ed)
	}
	edgeSig := func(ed *l2Edge) string {
		var sb strings.Builder
		for _, op := range ed.Ops {
			fmt.Fprintf(&sb, "%s|%s|%d|%d|%v|%s|%d|", op.Kind, op.Loc, op.KeyIx, op.ShapeI, op.Atomic, op.Label, op.Child)
			if op.Shape != nil {
				sb.WriteString(op.Shape.Key())
			}
			for _, l := range op.Leaves {
				fmt.Fprintf(&sb, ",%d", l.ID)
			}
			if op.ShapeP != nil {
				fmt.Fprintf(&sb, ";sp%d", op.ShapeP.ID)
			}
			if op.Res != nil {
				fmt.Fprintf(&sb, ";r%d", op.Res.ID)
			}
			if op.Cond != nil {
				fmt.Fprintf(&sb, ";c%d", op.Cond.ID)
			}
			sb.WriteString(";" + op.Pos + "\n")
		}
		gs := make([]int, len(ed.Guard))
		for i, g := range ed.Guard {
			gs[i] = g.ID
		}
		sort.Ints(gs)
		fmt.Fprintf(&sb, "G%v T%v", gs, ed.Terminal)
		return sb.String()
	}
	sig := map[string]string{}
	var nodeSig func(k string) string
	nodeSig = func(k string) string {
		if s, ok := sig[k]; ok {
			return s
		}
		var parts []string
		for _, ed := range bySrc[k] {
			parts = append(parts, edgeSig(ed)+"=>"+nodeSig(ed.Dst))
		}
		sort.Strings(parts)
		h := fmt.Sprintf("%x", hashString(strings.Join(parts, "\x00"))) + fmt.Sprintf(":%d", len(parts))
		if len(parts) == 0 {
			h = "leaf"
		} else {
			// keep full precision: hash collisions must not merge different subtrees
			h = strings.Join(parts, "\x00")
			h = fmt.Sprintf("%x-%d", hashString(h), len(h))
		}
		sig[k] = h
		return h
	}
	canon := map[string]string{} // signature -> canonical key
	rep := func(k string) string {
		s := nodeSig(k)
		if s == "leaf" {
			s = "leaf"
		}
		if c, ok := canon[s]; ok {
			return c
		}
		canon[s] = k
		return k
	}
	isRoot := map[string]bool{}
	hasIn := map[string]bool{}
	for _, ed := range t.Edges {
		hasIn[ed.Dst] = true
	}
	for k := range bySrc {
		if !hasIn[k] {
			isRoot[k] = true
		}
	}
	newEdges := map[string]*l2Edge{}
	for _, ed := range t.Edges {
		src := ed.Src
		if !isRoot[src] {
			src = rep(src)
		}
		dst := rep(ed.Dst)
		key := src + "\x00" + edgeSig(ed) + "\x00" + dst
		if _, ok := newEdges[key]; ok {
			continue
		}
		ne := *ed
		ne.Src, ne.Dst = src, dst
		newEdges[key] = &ne
	}
	t.Edges = map[string]*l2Edge{}
	i := 0
	var keys []string
	for k := range newEdges {
		keys = append(keys, k)
	}
	sort.Strings(keys)
	for _, k := range keys {
		i++
		t.Edges[fmt.Sprintf("%06d", i)] = newEdges[k]
	}
}

// only labels matching this expression are queried (a property check selects its own assertions)
var labelFilter *regexp.Regexp

func labelSelected(l string) bool {
	return labelFilter == nil || labelFilter.MatchString(l)
}

// fnOf extracts the function part of an access position ("file:line in function").
func fnOf(pos string) string {
	if i := strings.Index(pos, " in "); i >= 0 {
		return pos[i+4:]
	}
	return pos
}
