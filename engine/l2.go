package main

// L2 driver: explores every declared thread of a concurrency harness in event mode until the
// registry of shared-state facts is stable, then hands the automata to the BMC encoder.

import (
	"fmt"
	"os"
	"sort"
	"strings"
	"sync"
	"time"

	"golang.org/x/tools/go/ssa"
)

// BMC work can be sharded over processes: this process handles configurations with index%shardM == shardR
var shardR, shardM = 0, 1

// number of configurations solved concurrently inside one process
var l2Parallel = 8

// bound on the number of paths explored per harness (all threads, all fixpoint iterations)
var l2MaxPaths = 60000

func init() {
	if s := os.Getenv("SYMGO_L2MAXPATHS"); s != "" {
		fmt.Sscanf(s, "%d", &l2MaxPaths)
	}
}

type initLoc struct {
	Shape  *Shape
	Leaves []*Term
}

type l2Edge struct {
	ID       int
	Tid      int
	Src, Dst string
	Ops      []microOp
	Guard    []*Term
	Terminal bool
}

type l2Thread struct {
	Tid     int
	Name    string
	Root    string             // initial node key (root threads) or "" for spawned children
	Edges   map[string]*l2Edge // by Dst
	Spawned bool
	Parent  int
}

type l2Config struct {
	Key       string
	SetupPC   []*Term
	Init      map[string]initLoc         // mutable cells: initial content
	InitMaps  map[string]map[int]initLoc // map name -> universe index -> initial slot content (present keys)
	InitChans map[string]bool
	Threads   map[int]*l2Thread
	Inputs    []*Term
	Options   map[string]bool
	Decls     []string
	Classes   []classRec
}

type l2Run struct {
	e         *Engine
	reg       *l2Registry
	regs      map[string]*l2Registry // one registry per configuration (names of setup objects are configuration specific)
	fn        *ssa.Function
	configs   map[string]*l2Config
	nDecls    int
	lastDecls int
	paths     int
	errs      []string
}

// runL2Path executes the harness once: sequential setup, then (in event mode) the thread
// selected by target (and its spawned children).
func (r *l2Run) runPath(prefix []bool, target int) (restart bool) {
	e := r.e
	e.resetPath()
	e.trackCells = true
	e.prefix = prefix
	e.ev = &eventCtx{reg: newRegistry(), target: target, byName: map[string]*Cell{}, mapByName: map[string]*MapVal{}, chanByName: map[string]*ChanVal{},
		setupCells: map[int]*Cell{}, initVals: map[string]Value{}, options: map[string]bool{}, run: r}
	defer func() {
		e.ev = nil
		e.trackCells = false
	}()
	end := ""
	msg := ""
	func() {
		defer func() {
			if x := recover(); x != nil {
				switch v := x.(type) {
				case pathEnd:
					end, msg = v.kind, v.msg
				case progPanic:
					end, msg = "panic", v.msg
				case restartExploration:
					end, msg = "restart", v.why
				default:
					panic(x)
				}
			}
		}()
		e.runInit()
		e.callFunc(nil, &FuncVal{Fn: r.fn}, nil)
		end = "done"
	}()
	r.paths++
	switch end {
	case "restart":
		// a new fact about the shared state invalidated this path; the registry is marked as changed,
		// so the whole iteration is repeated, but the remaining paths of this iteration are still
		// explored to discover as many facts as possible per iteration
		return false
	case "panic":
		// a panic inside a thread on this path: record as an always-failing assertion block
		if e.ev.cur != nil || e.ev.active {
			r.recordPanic(msg)
		} else {
			r.errs = append(r.errs, "panic during setup: "+msg)
		}
	case "unwind":
		panic(engineErr("unwinding failure: %s", msg))
	}
	if e.ev.active {
		r.collect()
	}
	return false
}

func (r *l2Run) recordPanic(msg string) {
	e := r.e
	t := e.ev.cur
	if t == nil {
		r.errs = append(r.errs, "panic outside a thread: "+msg)
		return
	}
	e.ev.atomic = 0
	e.closeBlock()
	t.blk = &blockRec{Tid: t.id, Src: t.lastKey, Terminal: true, Ops: []microOp{{Kind: "assert", Cond: e.tb.Bool(false), Label: "auto:no-panic", Pos: msg}}}
	e.closeBlock()
}

func (r *l2Run) config(key string) *l2Config {
	c := r.configs[key]
	if c == nil {
		c = &l2Config{Key: key, Init: map[string]initLoc{}, InitMaps: map[string]map[int]initLoc{}, InitChans: map[string]bool{}, Threads: map[int]*l2Thread{}, Options: map[string]bool{}}
		r.configs[key] = c
	}
	return c
}

// collect merges the blocks of the finished path into the automata of its configuration.
func (r *l2Run) collect() {
	e := r.e
	ev := e.ev
	cfg := r.config(ev.setupKey)
	cfg.SetupPC = ev.setupPC
	cfg.Classes = ev.setupClasses
	cfg.Decls = nil
	for _, d := range ev.decls {
		cfg.Decls = append(cfg.Decls, d.name)
	}
	for k, v := range ev.options {
		cfg.Options[k] = v
	}
	seen := map[int]bool{}
	for _, in := range cfg.Inputs {
		seen[in.ID] = true
	}
	for _, in := range e.inputs {
		if !seen[in.ID] {
			seen[in.ID] = true
			cfg.Inputs = append(cfg.Inputs, in)
		}
	}
	for _, t := range ev.threads {
		th := cfg.Threads[t.id]
		if th == nil {
			th = &l2Thread{Tid: t.id, Name: t.name, Edges: map[string]*l2Edge{}, Parent: t.parent}
			cfg.Threads[t.id] = th
		}
		if t.parent == 0 {
			th.Root = t.rootKey
		} else {
			th.Spawned = true
		}
	}
	for _, b := range ev.blocks {
		th := cfg.Threads[b.Tid]
		if _, ok := th.Edges[b.Dst]; ok {
			continue
		}
		th.Edges[b.Dst] = &l2Edge{Tid: b.Tid, Src: b.Src, Dst: b.Dst, Ops: b.Ops, Guard: b.Guard, Terminal: b.Terminal}
	}
	// initial state of mutable setup locations
	for loc := range ev.reg.mutable {
		switch ev.reg.locKind[loc] {
		case "cell":
			if _, ok := cfg.Init[loc]; ok {
				continue
			}
			var id int
			if _, err := fmt.Sscanf(loc, "S%d", &id); err == nil && strings.HasPrefix(loc, "S") && id <= ev.setupMaxCell {
				c := ev.setupCells[id]
				if c == nil {
					continue
				}
				switch c.V.(type) {
				case *StructVal, *ArrayVal:
					continue
				}
				sh, leaves := e.flattenInit(ev.setupSnap[id])
				ev.reg.addShape(loc, sh)
				cfg.Init[loc] = initLoc{sh, leaves}
			}
		case "map":
			if _, ok := cfg.InitMaps[loc]; ok {
				continue
			}
			var id int
			if _, err := fmt.Sscanf(loc, "M%d", &id); err == nil && strings.HasPrefix(loc, "M") {
				m := ev.setupMaps[id]
				if m == nil {
					continue
				}
				im := map[int]initLoc{}
				for _, en := range m.Entries {
					if en.Deleted {
						continue
					}
					ck := e.canonKey(en.K)
					ki := ev.reg.addMapKey(loc, ck, en.K)
					sh, leaves := e.flattenInit(en.V)
					ev.reg.addShape(fmt.Sprintf("%s{%d}", loc, ki), sh)
					im[ki] = initLoc{sh, leaves}
				}
				cfg.InitMaps[loc] = im
			} else if strings.HasPrefix(loc, "Y:") {
				var cid int
				if _, err := fmt.Sscanf(loc, "Y:S%d", &cid); err == nil {
					im := map[int]initLoc{}
					if c := ev.setupCells[cid]; c != nil {
						if m := ev.setupSyncMaps[c]; m != nil {
							for _, en := range m.Entries {
								if en.Deleted {
									continue
								}
								ck := e.canonKey(en.K)
								ki := ev.reg.addMapKey(loc, ck, en.K)
								sh, leaves := e.flattenInit(en.V)
								ev.reg.addShape(fmt.Sprintf("%s{%d}", loc, ki), sh)
								im[ki] = initLoc{sh, leaves}
							}
						}
					}
					cfg.InitMaps[loc] = im
				}
			}
		case "chan":
			var id int
			if _, err := fmt.Sscanf(loc, "C%d", &id); err == nil && strings.HasPrefix(loc, "C") {
				if ch := ev.setupChans[id]; ch != nil {
					cfg.InitChans[loc] = ch.Closed
				}
			}
		}
	}
}

// flattenInit flattens a setup value without publishing side effects on blocks.
func (e *Engine) flattenInit(v Value) (*Shape, []*Term) {
	saved := e.ev.cur
	tmp := &threadRec{id: -1}
	e.ev.cur = tmp
	sh, leaves := e.flatten(v)
	e.ev.cur = saved
	return sh, leaves
}

type L2Result struct {
	Name       string                `json:"name"`
	Configs    int                   `json:"configs"`
	Iterations int                   `json:"fixpoint_iterations"`
	Paths      int                   `json:"paths"`
	Threads    int                   `json:"threads"`
	Edges      int                   `json:"edges"`
	Nodes      int                   `json:"nodes"`
	Steps      int                   `json:"steps"`
	Locations  int                   `json:"shared_locations"`
	Queries    []BMCQuery            `json:"queries"`
	Violations []Violation           `json:"violations"`
	Reach      map[string]int        `json:"reach"`
	Asserts    map[string]*AssertRec `json:"asserts"`
	SolverS    float64               `json:"solver_s"`
	WallS      float64               `json:"wall_s"`
	Error      string                `json:"error,omitempty"`
	Functions  []FnCov               `json:"functions"`
	Stubs      map[string]int        `json:"stubs"`
	Traces     []string              `json:"traces"`
	Labels     []string              `json:"labels_declared"`
	ExploreQ   int                   `json:"explore_queries"`
	BMCSolverS float64               `json:"bmc_solver_s"`
	BMCQueries int                   `json:"bmc_queries"`
	Fallbacks  []string              `json:"fallback_solver_answers"`
	ConfigKeys []string              `json:"config_keys"`
	Witnesses  []string              `json:"witnesses"`
	Registry   []string              `json:"registry_summary"`
	CfgInfo    []string              `json:"configs_info"`
}

func runL2Harness(prog *ssa.Program, pkg *ssa.Package, name, mode, solverName string, timeout int, known []KnownFinding, maxSteps int, smtlog string) (res L2Result) {
	res.Name = name
	res.Reach = map[string]int{}
	res.Asserts = map[string]*AssertRec{}
	start := time.Now()
	fn := pkg.Func(name)
	if fn == nil {
		res.Error = "harness function not found: " + name
		return
	}
	tb := NewTermBuilder()
	x := &explorer{}
	x.cond = sync.NewCond(&x.mu)
	e := &Engine{prog: prog, pkg: pkg, pkgPath: pkg.Pkg.Path(), tb: tb, mode: mode, harness: name,
		asserts: map[string]*AssertRec{}, reachAll: map[string]int{}, fnTouched: map[*ssa.Function]map[int]bool{},
		endCounts: map[string]int{}, maxSteps: maxSteps, known: known, stubsUsed: map[string]int{}, skippedGo: map[string]int{}, x: x}
	e.solver = NewSolver(tb, solverName, timeout)
	defer e.solver.Close()
	defer func() {
		if r := recover(); r != nil {
			if ee, ok := r.(engineError); ok {
				res.Error = ee.msg
			} else {
				res.Error = fmt.Sprintf("internal error: %v", r)
				if os.Getenv("SYMGO_TRACE") != "" {
					panic(r)
				}
			}
		}
		res.WallS = time.Since(start).Seconds()
		res.Stubs = e.stubsUsed
		res.Labels = collectLabels(pkg, fn)
		for f, blocks := range e.fnTouched {
			n := f.String()
			if !strings.Contains(n, e.pkgPath) || strings.Contains(n, ".verif") {
				continue
			}
			res.Functions = append(res.Functions, FnCov{Name: n, Blocks: len(f.Blocks), Touched: len(blocks)})
		}
		sort.Slice(res.Functions, func(i, j int) bool { return res.Functions[i].Name < res.Functions[j].Name })
	}()
	run := &l2Run{e: e, reg: newRegistry(), fn: fn, regs: map[string]*l2Registry{}}
	for iter := 1; ; iter++ {
		if iter > 30 {
			panic(engineErr("L2 registry fixpoint did not converge: %v", run.reg.changes))
		}
		res.Iterations = iter
		for _, rg := range run.regs {
			rg.changed = false
			rg.changes = nil
		}
		run.configs = map[string]*l2Config{}
		run.nDecls = -1
		restart := false
		for target := 0; run.nDecls < 0 || target <= run.nDecls; target++ {
			x.work = [][]bool{nil}
			for len(x.work) > 0 {
				p := x.work[len(x.work)-1]
				x.work = x.work[:len(x.work)-1]
				if run.runPath(p, target) {
					restart = true
					break
				}
				if run.paths > l2MaxPaths {
					if os.Getenv("SYMGO_PROGRESS") != "" {
						type kv struct {
							k string
							n int
						}
						var top []kv
						for k, v := range run.reg.shapes {
							top = append(top, kv{k, len(v)})
						}
						_ = top
						sort.Slice(top, func(i, j int) bool { return top[i].n > top[j].n })
						for i := 0; i < len(top) && i < 12; i++ {
							fmt.Fprintf(os.Stderr, "  shapes %-60s %d\n", top[i].k, top[i].n)
							if i < 3 {
								for _, sh := range run.reg.shapes[top[i].k] {
									fmt.Fprintf(os.Stderr, "      %s\n", sh.Key())
								}
							}
						}
					}
					panic(engineErr("L2 exploration exceeded the path bound (%d paths): the shared state of this code forks too often for thread-modular exploration", l2MaxPaths))
				}
			}
			if restart {
				break
			}
			if run.nDecls < 0 {
				run.nDecls = run.lastDecls
			}
		}
		anyChanged := false
		var changes []string
		for _, rg := range run.regs {
			if rg.changed {
				anyChanged = true
				if len(changes) < 20 {
					changes = append(changes, rg.changes...)
				}
			}
		}
		if os.Getenv("SYMGO_PROGRESS") != "" {
			fmt.Fprintf(os.Stderr, "[%s] L2 iteration %d: paths=%d configs=%d changed=%v %v\n", name, iter, run.paths, len(run.regs), anyChanged, changes)
		}
		if !restart && !anyChanged {
			break
		}
	}
	res.Paths = run.paths
	res.Configs = len(run.configs)
	res.ExploreQ = e.solver.Queries
	if len(run.errs) > 0 {
		panic(engineErr("L2 exploration: %s", strings.Join(run.errs, "; ")))
	}
	var keys []string
	for k := range run.configs {
		keys = append(keys, k)
	}
	sort.Strings(keys)
	res.ConfigKeys = keys
	var bs []*bmc
	for ki, k := range keys {
		if shardM > 1 && ki%shardM != shardR {
			continue
		}
		b := newBMC(e, run.regs[k], run.configs[k], name)
		b.prepare(&res)
		bs = append(bs, b)
	}
	// the configurations are independent: solve them concurrently (terms are read-only from here on)
	var mu sync.Mutex
	var wg sync.WaitGroup
	sem := make(chan struct{}, l2Parallel)
	var firstErr string
	for _, b := range bs {
		wg.Add(1)
		go func(b *bmc) {
			defer wg.Done()
			defer func() {
				if r := recover(); r != nil {
					mu.Lock()
					if firstErr == "" {
						if ee, ok := r.(engineError); ok {
							firstErr = ee.msg
						} else {
							firstErr = fmt.Sprintf("internal error: %v", r)
						}
					}
					mu.Unlock()
				}
			}()
			b.solve(&res, &mu, sem)
		}(b)
	}
	wg.Wait()
	if firstErr != "" {
		panic(engineErr("%s", firstErr))
	}
	res.SolverS = e.solver.Seconds
	return
}
