package main

import (
	"encoding/json"
	"flag"
	"fmt"
	"go/constant"
	"os"
	"path/filepath"
	"regexp"
	"sort"
	"strings"
	"sync"
	"time"

	"golang.org/x/tools/go/packages"
	"golang.org/x/tools/go/ssa"
	"golang.org/x/tools/go/ssa/ssautil"
)

type FnCov struct {
	Name    string `json:"name"`
	Blocks  int    `json:"blocks"`
	Touched int    `json:"touched"`
}

type HarnessResult struct {
	Name        string                `json:"name"`
	Mode        string                `json:"mode"`
	Paths       int                   `json:"paths"`
	Ends        map[string]int        `json:"ends"`
	Asserts     map[string]*AssertRec `json:"asserts"`
	Reach       map[string]int        `json:"reach"`
	Violations  []Violation           `json:"violations"`
	Queries     int                   `json:"queries"`
	Sat         int                   `json:"sat"`
	Unsat       int                   `json:"unsat"`
	Unknown     int                   `json:"unknown"`
	SolverS     float64               `json:"solver_s"`
	WallS       float64               `json:"wall_s"`
	Functions   []FnCov               `json:"functions"`
	Stubs       map[string]int        `json:"stubs"`
	Samples     []map[string]string   `json:"samples"`
	Notes       []string              `json:"notes,omitempty"`
	Error       string                `json:"error,omitempty"`
	Inexact     bool                  `json:"inexact"`
	RangePaths  int                   `json:"paths_relying_on_no_overflow"`
	FPRoundings int                   `json:"fp_roundings"`
	SkippedGo   map[string]int        `json:"goroutines_not_started"`
	Steps       int                   `json:"steps"`
	Labels      []string              `json:"labels_declared"`
}

type Output struct {
	Repo      string          `json:"repo"`
	LoadS     float64         `json:"load_s"`
	Solver    string          `json:"solver"`
	Harnesses []HarnessResult `json:"harnesses"`
	L2        []L2Result      `json:"l2"`
	Error     string          `json:"error,omitempty"`
}

func main() {
	repo := flag.String("repo", "/repo", "repository under test")
	hdir := flag.String("harness-dir", "/verif/harness", "directory with in-package harness files")
	run := flag.String("run", "", "comma separated harness function names (suffix :int selects integer mode)")
	solver := flag.String("solver", "z3", "z3 | z3-new | cvc5")
	timeout := flag.Int("timeout", 60, "per-query timeout (s)")
	knownF := flag.String("known", "", "known findings json")
	out := flag.String("out", "", "result json (default stdout)")
	maxSteps := flag.Int("maxsteps", 2000000, "instruction bound per path (unwinding bound)")
	maxPaths := flag.Int("maxpaths", 200000, "path bound per harness")
	jobs := flag.Int("j", 4, "harnesses explored in parallel")
	workers := flag.Int("w", 4, "path-exploration workers per harness")
	samples := flag.Int("samples", 3, "sample models per harness")
	smtlog := flag.String("smtlog", "", "directory for SMT transcripts")
	shard := flag.String("l2shard", "", "r/M: decide only the L2 configurations with index%M == r")
	l2par := flag.Int("l2par", 8, "L2 solver runs in flight per harness")
	l2labels := flag.String("l2labels", "", "regular expression: only these assertion / reach labels are queried")
	flag.Parse()

	l2Parallel = *l2par
	if *l2labels != "" {
		labelFilter = regexp.MustCompile(*l2labels)
	}
	if *shard != "" {
		fmt.Sscanf(*shard, "%d/%d", &shardR, &shardM)
	}
	res := Output{Repo: *repo, Solver: *solver}
	emit := func() {
		b, _ := json.MarshalIndent(res, "", " ")
		if *out == "" {
			os.Stdout.Write(b)
			fmt.Println()
		} else {
			os.WriteFile(*out, b, 0o644)
		}
	}

	var known []KnownFinding
	if *knownF != "" {
		b, err := os.ReadFile(*knownF)
		if err == nil {
			var kf struct {
				Findings []KnownFinding `json:"findings"`
			}
			if err := json.Unmarshal(b, &kf); err != nil {
				res.Error = "known findings: " + err.Error()
				emit()
				os.Exit(2)
			}
			known = kf.Findings
		}
	}

	t0 := time.Now()
	prog, pkg, err := load(*repo, *hdir)
	if err != nil {
		res.Error = "load: " + err.Error()
		emit()
		os.Exit(2)
	}
	res.LoadS = time.Since(t0).Seconds()

	var names, l2names []string
	for _, n := range strings.Split(*run, ",") {
		n = strings.TrimSpace(n)
		if n == "" {
			continue
		}
		if strings.HasSuffix(n, ":l2") || strings.HasSuffix(n, ":l2int") {
			l2names = append(l2names, n)
		} else {
			names = append(names, n)
		}
	}
	l2results := make([]L2Result, len(l2names))
	var wg2 sync.WaitGroup
	sem2 := make(chan struct{}, *jobs)
	for i, n := range l2names {
		wg2.Add(1)
		go func(i int, n string) {
			defer wg2.Done()
			sem2 <- struct{}{}
			defer func() { <-sem2 }()
			mode := "bv"
			if strings.HasSuffix(n, ":l2int") {
				mode = "int"
			}
			n = strings.TrimSuffix(strings.TrimSuffix(n, ":l2int"), ":l2")
			l2results[i] = runL2Harness(prog, pkg, n, mode, *solver, *timeout, known, *maxSteps, *smtlog)
		}(i, n)
	}
	results := make([]HarnessResult, len(names))
	var wg sync.WaitGroup
	sem := make(chan struct{}, *jobs)
	for i, n := range names {
		wg.Add(1)
		go func(i int, n string) {
			defer wg.Done()
			sem <- struct{}{}
			defer func() { <-sem }()
			mode := "bv"
			if strings.HasSuffix(n, ":int") {
				mode = "int"
				n = strings.TrimSuffix(n, ":int")
			}
			if strings.HasSuffix(n, ":real") {
				mode = "real"
				n = strings.TrimSuffix(n, ":real")
			}
			results[i] = runHarness(prog, pkg, n, mode, *solver, *timeout, known, *maxSteps, *maxPaths, *samples, *smtlog, *workers)
		}(i, strings.TrimSpace(n))
	}
	wg.Wait()
	wg2.Wait()
	res.Harnesses = results
	res.L2 = l2results
	emit()
	for _, r := range results {
		if r.Error != "" {
			os.Exit(2)
		}
	}
	for _, r := range l2results {
		if r.Error != "" {
			os.Exit(2)
		}
	}
}

func load(repo, hdir string) (*ssa.Program, *ssa.Package, error) {
	overlay := map[string][]byte{}
	files, _ := filepath.Glob(filepath.Join(hdir, "*.go"))
	for _, f := range files {
		b, err := os.ReadFile(f)
		if err != nil {
			return nil, nil, err
		}
		if strings.HasSuffix(f, "_test.go") {
			continue
		}
		overlay[filepath.Join(repo, "zz_verif_"+filepath.Base(f))] = b
	}
	cfg := &packages.Config{
		Mode:    packages.LoadAllSyntax,
		Dir:     repo,
		Overlay: overlay,
		Env:     append(os.Environ(), "GOFLAGS=-mod=mod", "GOPROXY=off", "GOSUMDB=off", "GOTOOLCHAIN=local"),
	}
	pkgs, err := packages.Load(cfg, ".")
	if err != nil {
		return nil, nil, err
	}
	var errs []string
	packages.Visit(pkgs, nil, func(p *packages.Package) {
		for _, e := range p.Errors {
			errs = append(errs, e.Error())
		}
	})
	if len(errs) > 0 {
		return nil, nil, fmt.Errorf("package errors: %s", strings.Join(errs, "; "))
	}
	prog, spkgs := ssautil.AllPackages(pkgs, ssa.InstantiateGenerics)
	prog.Build()
	if len(spkgs) == 0 || spkgs[0] == nil {
		return nil, nil, fmt.Errorf("no SSA package")
	}
	return prog, spkgs[0], nil
}

type explorer struct {
	mu     sync.Mutex
	cond   *sync.Cond
	work   [][]bool
	active int
	npaths int
	err    string
}

func (x *explorer) push(p []bool) {
	x.mu.Lock()
	x.work = append(x.work, p)
	x.mu.Unlock()
	x.cond.Signal()
}

// pop blocks until work is available or every worker is idle (then returns nil,false)
func (x *explorer) pop() ([]bool, bool) {
	x.mu.Lock()
	defer x.mu.Unlock()
	for {
		if x.err != "" {
			return nil, false
		}
		if n := len(x.work); n > 0 {
			p := x.work[n-1]
			x.work = x.work[:n-1]
			x.active++
			x.npaths++
			return p, true
		}
		if x.active == 0 {
			x.cond.Broadcast()
			return nil, false
		}
		x.cond.Wait()
	}
}

func (x *explorer) done() {
	x.mu.Lock()
	x.active--
	x.mu.Unlock()
	x.cond.Broadcast()
}

func runHarness(prog *ssa.Program, pkg *ssa.Package, name, mode, solverName string, timeout int, known []KnownFinding, maxSteps, maxPaths, samples int, smtlog string, workers int) (hr HarnessResult) {
	hr.Name, hr.Mode = name, mode
	start := time.Now()
	fn := pkg.Func(name)
	if fn == nil {
		hr.Error = "harness function not found: " + name
		return
	}
	x := &explorer{work: [][]bool{nil}}
	x.cond = sync.NewCond(&x.mu)
	engines := make([]*Engine, workers)
	var wg sync.WaitGroup
	for w := 0; w < workers; w++ {
		tb := NewTermBuilder()
		e := &Engine{prog: prog, pkg: pkg, pkgPath: pkg.Pkg.Path(), tb: tb, mode: mode, harness: name,
			asserts: map[string]*AssertRec{}, reachAll: map[string]int{}, fnTouched: map[*ssa.Function]map[int]bool{},
			endCounts: map[string]int{}, maxSteps: maxSteps, maxPaths: maxPaths, samples: samples, known: known,
			stubsUsed: map[string]int{}, skippedGo: map[string]int{}, x: x}
		e.solver = NewSolver(tb, solverName, timeout)
		if smtlog != "" && w == 0 {
			os.MkdirAll(smtlog, 0o755)
			f, err := os.Create(filepath.Join(smtlog, name+".smt2"))
			if err == nil {
				e.solver.Log = f
				defer f.Close()
			}
		}
		engines[w] = e
		wg.Add(1)
		go func(e *Engine) {
			defer wg.Done()
			defer e.solver.Close()
			defer func() {
				if r := recover(); r != nil {
					msg := ""
					if ee, ok := r.(engineError); ok {
						msg = ee.msg
						if os.Getenv("SYMGO_TRACE") == "2" {
							panic(r)
						}
					} else {
						msg = fmt.Sprintf("internal error: %v", r)
						if os.Getenv("SYMGO_TRACE") != "" {
							panic(r)
						}
					}
					x.mu.Lock()
					if x.err == "" {
						x.err = msg
					}
					x.mu.Unlock()
					x.cond.Broadcast()
				}
			}()
			for {
				p, ok := x.pop()
				if !ok {
					return
				}
				if maxPaths > 0 && x.npaths > maxPaths {
					x.done()
					panic(engineErr("path bound %d exceeded in harness %s", maxPaths, name))
				}
				func() {
					defer x.done()
					e.runPath(fn, p)
				}()
				if os.Getenv("SYMGO_PROGRESS") != "" && x.npaths%200 == 0 {
					fmt.Fprintf(os.Stderr, "[%s] paths=%d queue=%d %.0fs\n", name, x.npaths, len(x.work), time.Since(start).Seconds())
				}
			}
		}(e)
	}
	wg.Wait()
	hr.Error = x.err
	hr.Labels = collectLabels(pkg, fn)
	hr.Ends = map[string]int{}
	hr.Asserts = map[string]*AssertRec{}
	hr.Reach = map[string]int{}
	hr.Stubs = map[string]int{}
	hr.SkippedGo = map[string]int{}
	cov := map[string]*FnCov{}
	covBlocks := map[string]map[int]bool{}
	for _, e := range engines {
		hr.Paths += len(e.paths)
		for k, v := range e.endCounts {
			hr.Ends[k] += v
		}
		for k, a := range e.asserts {
			r := hr.Asserts[k]
			if r == nil {
				r = &AssertRec{Label: k}
				hr.Asserts[k] = r
			}
			r.OK += a.OK
			r.Violated += a.Violated
			r.Unknown += a.Unknown
		}
		for k, v := range e.reachAll {
			hr.Reach[k] += v
		}
		hr.Violations = append(hr.Violations, e.violations...)
		hr.Queries += e.solver.Queries
		hr.Sat += e.solver.Sat
		hr.Unsat += e.solver.Unsat
		hr.Unknown += e.solver.Unknown
		hr.SolverS += e.solver.Seconds
		for k, v := range e.stubsUsed {
			hr.Stubs[k] += v
		}
		for k, v := range e.skippedGo {
			hr.SkippedGo[k] += v
		}
		hr.RangePaths += e.overflowPaths
		for _, p := range e.paths {
			hr.Steps += p.Steps
			if p.Sample != nil && len(hr.Samples) < samples {
				hr.Samples = append(hr.Samples, p.Sample)
			}
			for _, n := range p.Notes {
				if len(hr.Notes) < 12 {
					hr.Notes = append(hr.Notes, n)
				}
			}
		}
		for f, blocks := range e.fnTouched {
			if f.Package() != nil && f.Package().Pkg.Path() != e.pkgPath {
				continue
			}
			if f.Package() == nil && (f.Origin() == nil || f.Origin().Package() == nil || f.Origin().Package().Pkg.Path() != e.pkgPath) {
				if f.Parent() == nil {
					continue
				}
			}
			n := f.String()
			if strings.Contains(n, ".verif") {
				continue
			}
			if cov[n] == nil {
				cov[n] = &FnCov{Name: n, Blocks: len(f.Blocks)}
				covBlocks[n] = map[int]bool{}
			}
			for b := range blocks {
				covBlocks[n][b] = true
			}
		}
	}
	for n, c := range cov {
		c.Touched = len(covBlocks[n])
		hr.Functions = append(hr.Functions, *c)
	}
	sort.Slice(hr.Functions, func(i, j int) bool { return hr.Functions[i].Name < hr.Functions[j].Name })
	sort.Slice(hr.Violations, func(i, j int) bool { return hr.Violations[i].Path < hr.Violations[j].Path })
	hr.Inexact = hr.Unknown > 0
	hr.WallS = time.Since(start).Seconds()
	return
}

// collectLabels statically collects the constant labels of verifAssert/verifReach calls
// reachable from the harness function (vacuity witnesses: each must be reached on some path).
func collectLabels(pkg *ssa.Package, root *ssa.Function) []string {
	seen := map[*ssa.Function]bool{}
	labels := map[string]bool{}
	var visit func(f *ssa.Function)
	visit = func(f *ssa.Function) {
		if f == nil || seen[f] || f.Blocks == nil {
			return
		}
		seen[f] = true
		for _, b := range f.Blocks {
			for _, ins := range b.Instrs {
				switch in := ins.(type) {
				case *ssa.MakeClosure:
					visit(in.Fn.(*ssa.Function))
				}
				var cc *ssa.CallCommon
				switch in := ins.(type) {
				case *ssa.Call:
					cc = &in.Call
				case *ssa.Defer:
					cc = &in.Call
				case *ssa.Go:
					cc = &in.Call
				}
				if cc == nil {
					continue
				}
				if callee := cc.StaticCallee(); callee != nil {
					n := callee.Name()
					if (n == "verifAssert" || n == "verifReach") && len(cc.Args) > 0 {
						if c, ok := cc.Args[0].(*ssa.Const); ok && c.Value != nil {
							labels[constant.StringVal(c.Value)] = true
						}
						continue
					}
					if strings.HasPrefix(n, "verif") || (callee.Parent() != nil) {
						if callee.Pkg == pkg || callee.Parent() != nil {
							visit(callee)
						}
					}
				}
				for _, a := range cc.Args {
					if fn, ok := a.(*ssa.Function); ok {
						visit(fn)
					}
				}
			}
		}
		for _, af := range f.AnonFuncs {
			visit(af)
		}
	}
	visit(root)
	var out []string
	for l := range labels {
		out = append(out, l)
	}
	sort.Strings(out)
	return out
}
