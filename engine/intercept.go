package main

import (
	"fmt"
	"go/types"
	"math/big"
	"strconv"
	"strings"

	"github.com/cespare/xxhash/v2"
	"golang.org/x/tools/go/ssa"
)

func (e *Engine) stub(name string) { e.stubsUsed[name]++ }

func (e *Engine) strArg(v Value) string {
	s, ok := v.(*StrVal).Concrete()
	if !ok {
		panic(engineErr("intrinsic needs a concrete string argument"))
	}
	return s
}

func (e *Engine) timeType() types.Type {
	return e.prog.ImportedPackage("time").Type("Time").Type()
}

// time.Time model: wall==1 marks "an instant", ext = Unix nanoseconds; the all-zero struct is the zero Time.
func (e *Engine) mkTime(ns *Term) Value {
	st := e.zero(e.timeType()).(*StructVal)
	st.F[0].V = e.tb.BVConst(1, 64)
	st.F[1].V = ns
	return st
}

func (e *Engine) timeNs(v Value) (*Term, bool) {
	st := v.(*StructVal)
	w := st.F[0].V.(*Term)
	if !w.IsConst() {
		// read back from shared state: the zero Time has wall==0, every modelled instant wall==1
		if e.branch(e.tb.Eq(w, e.tb.BVConst(0, 64))) {
			return nil, true
		}
		return st.F[1].V.(*Term), false
	}
	if w.U == 0 {
		return nil, true
	}
	return st.F[1].V.(*Term), false
}

var i64 = IntTy{64, true}
var u64 = IntTy{64, false}

func (e *Engine) now(fr *frame) *Term {
	v := e.pkg.Var("verifClockFn")
	if v == nil {
		panic(engineErr("time.Now used but the harness package has no verifClockFn"))
	}
	fv, _ := e.globalCell(v).V.(*FuncVal)
	if fv == nil {
		panic(engineErr("time.Now reached but the harness did not set verifClockFn (%s)", e.stack(fr)))
	}
	e.stub("time.Now->verifClockFn")
	return e.callFunc(fr, fv, nil).(*Term)
}

func (e *Engine) maxDuration() *Term { return e.tb.BVConst(uint64(1<<63-1), 64) }

func (e *Engine) lockOf(c *Cell) *lockSt {
	l := e.locks[c]
	if l == nil {
		l = &lockSt{}
		e.locks[c] = l
	}
	return l
}

func (e *Engine) syncMapOf(c *Cell) *MapVal {
	m := e.syncMaps[c]
	if m == nil {
		e.mapN++
		m = &MapVal{ID: e.mapN, Sync: true}
		if e.ev != nil && e.ev.active {
			if n, ok := e.cellName(c); ok {
				// a sync.Map first touched by a thread: shared, named after its cell
				m.Name = "Y:" + n
				if old, ok := e.ev.mapByName[m.Name]; ok {
					m = old
				} else {
					e.ev.mapByName[m.Name] = m
				}
			}
		}
		e.syncMaps[c] = m
	}
	return m
}

// intercept returns (result, true) if fn is modelled natively.
func (e *Engine) intercept(fr *frame, fn *ssa.Function, args []Value) (Value, bool) {
	name := fn.String()
	if fn.Name() == "init" && fn.Pkg != nil && fn.Pkg.Pkg.Path() != e.pkgPath && fn.Signature.Recv() == nil && fn.Parent() == nil {
		return nil, true // package initialisers of imports are not executed
	}
	if strings.HasPrefix(name, e.pkgPath+".verif") {
		if r, ok := e.intrinsic(fr, strings.TrimPrefix(name, e.pkgPath+"."), args); ok {
			return r, true
		}
		return nil, false
	}
	tb := e.tb
	if strings.HasPrefix(name, "net/") || strings.HasPrefix(name, "(net/") || strings.HasPrefix(name, "(*net/") || name == "io.ReadAll" || name == "io.Copy" {
		if r, ok := e.httpIntercept(fr, fn, name, args); ok {
			return r, true
		}
	}
	switch name {
	// ---------------- sync ----------------
	case "(*sync.Once).Do":
		c := args[0].(PtrVal).C
		if c == nil {
			e.progPanicAt(fr, "nil pointer dereference (Once.Do)")
		}
		if e.ev != nil && e.ev.active {
			panic(engineErr("sync.Once is not modelled in concurrency harnesses"))
		}
		e.stub("sync.Once (sequential: runs the function on the first call)")
		if e.onceDone == nil {
			e.onceDone = map[*Cell]bool{}
		}
		if !e.onceDone[c] {
			e.onceDone[c] = true
			if f, _ := args[1].(*FuncVal); f != nil {
				e.callFunc(fr, f, nil)
			}
		}
		return nil, true
	case "(*sync.Mutex).Lock", "(*sync.RWMutex).Lock":
		c := args[0].(PtrVal).C
		if c == nil {
			e.progPanicAt(fr, "nil pointer dereference (Lock)")
		}
		if e.evNamed(c) {
			e.evLock(fr, c, "lock")
			return nil, true
		}
		l := e.lockOf(c)
		if l.w || l.r > 0 {
			panic(pathEnd{kind: "panic", msg: "deadlock: Lock of a mutex that is already held at " + e.stack(fr)})
		}
		l.w = true
		return nil, true
	case "(*sync.Mutex).Unlock", "(*sync.RWMutex).Unlock":
		c := args[0].(PtrVal).C
		if e.evNamed(c) {
			e.evLock(fr, c, "unlock")
			return nil, true
		}
		l := e.lockOf(c)
		if !l.w {
			e.progPanicAt(fr, "fatal error: sync: unlock of unlocked mutex")
		}
		l.w = false
		return nil, true
	case "(*sync.RWMutex).RLock":
		c := args[0].(PtrVal).C
		if e.evNamed(c) {
			e.evLock(fr, c, "rlock")
			return nil, true
		}
		l := e.lockOf(c)
		if l.w {
			panic(pathEnd{kind: "panic", msg: "deadlock: RLock of a write-locked mutex at " + e.stack(fr)})
		}
		l.r++
		return nil, true
	case "(*sync.RWMutex).RUnlock":
		c := args[0].(PtrVal).C
		if e.evNamed(c) {
			e.evLock(fr, c, "runlock")
			return nil, true
		}
		l := e.lockOf(c)
		if l.r == 0 {
			e.progPanicAt(fr, "fatal error: sync: RUnlock of unlocked RWMutex")
		}
		l.r--
		return nil, true
	case "sync/atomic.LoadInt64", "sync/atomic.LoadUint64", "sync/atomic.LoadInt32", "sync/atomic.LoadUint32":
		c := args[0].(PtrVal).C
		if c == nil {
			e.progPanicAt(fr, "nil pointer dereference (atomic load)")
		}
		if e.evNamed(c) {
			return e.evAtomic(fr, c, "load", nil), true
		}
		return c.V, true
	case "sync/atomic.StoreInt64", "sync/atomic.StoreUint64", "sync/atomic.StoreInt32", "sync/atomic.StoreUint32":
		c := args[0].(PtrVal).C
		if c == nil {
			e.progPanicAt(fr, "nil pointer dereference (atomic store)")
		}
		if e.evNamed(c) {
			e.evAtomic(fr, c, "store", args[1].(*Term))
			return nil, true
		}
		c.V = args[1]
		return nil, true
	case "sync/atomic.AddInt64", "sync/atomic.AddUint64":
		c := args[0].(PtrVal).C
		if c == nil {
			e.progPanicAt(fr, "nil pointer dereference (atomic add)")
		}
		if e.evNamed(c) {
			return e.evAtomic(fr, c, "add", args[1].(*Term)), true
		}
		it := i64
		if strings.HasSuffix(name, "Uint64") {
			it = u64
		}
		c.V = tb.IntBin("+", it, c.V.(*Term), args[1].(*Term), e.ovf)
		return c.V, true
	case "sync/atomic.SwapInt64", "sync/atomic.SwapUint64", "sync/atomic.SwapInt32", "sync/atomic.SwapUint32":
		c := args[0].(PtrVal).C
		if c == nil {
			e.progPanicAt(fr, "nil pointer dereference (atomic swap)")
		}
		if e.evNamed(c) {
			old := e.evAtomic(fr, c, "load", nil)
			e.evAtomic(fr, c, "store", args[1].(*Term))
			return old, true
		}
		old := c.V
		c.V = args[1]
		return old, true
	case "sync/atomic.CompareAndSwapInt64", "sync/atomic.CompareAndSwapUint64", "sync/atomic.CompareAndSwapInt32", "sync/atomic.CompareAndSwapUint32":
		c := args[0].(PtrVal).C
		if c == nil {
			e.progPanicAt(fr, "nil pointer dereference (atomic cas)")
		}
		if e.evNamed(c) {
			panic(engineErr("atomic compare-and-swap on shared state is not modelled in event mode"))
		}
		if e.branch(tb.Eq(c.V.(*Term), args[1].(*Term))) {
			c.V = args[2]
			return tb.Bool(true), true
		}
		return tb.Bool(false), true
	case "(*sync.Map).Load":
		e.stub("sync.Map")
		m := e.syncMapOf(args[0].(PtrVal).C)
		en := e.mapFind(fr, m, args[1])
		if en == nil {
			return TupleVal{IfaceVal{}, tb.Bool(false)}, true
		}
		return TupleVal{en.V, tb.Bool(true)}, true
	case "(*sync.Map).Store":
		e.stub("sync.Map")
		m := e.syncMapOf(args[0].(PtrVal).C)
		e.mapUpdate(fr, m, args[1], args[2])
		return nil, true
	case "(*sync.Map).Delete":
		e.stub("sync.Map")
		m := e.syncMapOf(args[0].(PtrVal).C)
		e.mapDelete(fr, m, args[1])
		return nil, true
	case "(*sync.Map).LoadAndDelete":
		e.stub("sync.Map")
		m := e.syncMapOf(args[0].(PtrVal).C)
		atomic := e.ev != nil && e.ev.active
		if atomic {
			e.beginAtomic() // one indivisible operation of sync.Map
			defer e.endAtomic()
		}
		en := e.mapFind(fr, m, args[1])
		if en == nil {
			return TupleVal{IfaceVal{}, tb.Bool(false)}, true
		}
		v := en.V
		e.mapDelete(fr, m, args[1])
		return TupleVal{v, tb.Bool(true)}, true
	case "(*sync.Map).LoadOrStore":
		e.stub("sync.Map")
		m := e.syncMapOf(args[0].(PtrVal).C)
		atomic := e.ev != nil && e.ev.active
		if atomic {
			e.beginAtomic()
			defer e.endAtomic()
		}
		en := e.mapFind(fr, m, args[1])
		if en != nil {
			return TupleVal{en.V, tb.Bool(true)}, true
		}
		e.mapUpdate(fr, m, args[1], args[2])
		return TupleVal{args[2], tb.Bool(false)}, true
	case "(*sync.Map).Range":
		e.stub("sync.Map")
		m := e.syncMapOf(args[0].(PtrVal).C)
		f := args[1].(*FuncVal)
		if n, ok := e.sharedMap(m); ok {
			pos := 0
			for {
				e.beginAtomic()
				idx := e.evMapNext(fr, n, pos)
				var kv, vv Value
				if idx >= 0 {
					kr := e.ev.reg.mapKeys[n][idx]
					kv = kr.val
					_, vv = e.evMapLookup2(fr, n, kr.val, true)
				}
				e.endAtomic()
				if idx < 0 {
					break
				}
				pos = idx + 1
				r := e.callFunc(fr, f, []Value{kv, vv}).(*Term)
				if !e.branch(r) {
					break
				}
			}
			return nil, true
		}
		for _, en := range e.mapSnapshot(fr, m) {
			if en.Deleted {
				continue
			}
			r := e.callFunc(fr, f, []Value{en.K, en.V}).(*Term)
			if !e.branch(r) {
				break
			}
		}
		return nil, true
	// ---------------- time ----------------
	case "time.Now":
		return e.mkTime(e.now(fr)), true
	case "time.Since":
		ns, zero := e.timeNs(args[0])
		if zero {
			// the zero Time is ~2000 years before any clock value: Since saturates at the maximal Duration
			e.now(fr)
			return e.maxDuration(), true
		}
		return tb.IntBin("-", i64, e.now(fr), ns, e.ovf), true
	case "(time.Time).Add":
		ns, zero := e.timeNs(args[0])
		if zero {
			panic(engineErr("Add on the zero time.Time is not modelled"))
		}
		return e.mkTime(tb.IntBin("+", i64, ns, args[1].(*Term), e.ovf)), true
	case "(time.Time).Sub":
		a, za := e.timeNs(args[0])
		b, zb := e.timeNs(args[1])
		if za || zb {
			if za && zb {
				return tb.BVConst(0, 64), true
			}
			if zb {
				return e.maxDuration(), true
			}
			return tb.BVConst(1<<63, 64), true
		}
		return tb.IntBin("-", i64, a, b, e.ovf), true
	case "(time.Time).UnixNano":
		ns, zero := e.timeNs(args[0])
		if zero {
			// time.Time{}.UnixNano() is documented as undefined; the runtime value is this constant
			return tb.BVConst(uint64(0xa1b203eb3d1a0000), 64), true
		}
		return ns, true
	case "time.Unix":
		sec, nsec := args[0].(*Term), args[1].(*Term)
		return e.mkTime(tb.IntBin("+", i64, tb.IntBin("*", i64, sec, tb.BVConst(1000000000, 64), e.ovf), nsec, e.ovf)), true
	case "(time.Time).IsZero":
		_, zero := e.timeNs(args[0])
		return tb.Bool(zero), true
	case "(time.Time).Before", "(time.Time).After", "(time.Time).Equal":
		a, za := e.timeNs(args[0])
		b, zb := e.timeNs(args[1])
		if za || zb {
			panic(engineErr("comparison with the zero time.Time is not modelled"))
		}
		switch fn.Name() {
		case "Before":
			return tb.Cmp("<", i64, a, b), true
		case "After":
			return tb.Cmp(">", i64, a, b), true
		}
		return tb.Eq(a, b), true
	case "(time.Time).String", "(time.Duration).String":
		return e.strConst("<time>"), true
	case "(time.Duration).Seconds":
		e.fpN++
		return tb.Sym(fmt.Sprintf("seconds#%d", e.fpN), RealSort), true
	// ---------------- math/rand ----------------
	case "math/rand.Float64":
		v := e.pkg.Var("verifRandFn")
		var fv *FuncVal
		if v != nil {
			fv, _ = e.globalCell(v).V.(*FuncVal)
		}
		if fv == nil {
			panic(engineErr("rand.Float64 reached but the harness did not set verifRandFn (%s)", e.stack(fr)))
		}
		e.stub("rand.Float64->verifRandFn")
		return e.callFunc(fr, fv, nil), true
	case "math/rand.Int63n", "math/rand.Int31n", "math/rand.Intn":
		// any value in [0, n): a nondeterministic stub (n <= 0 panics in the real library)
		e.stub("math/rand.Int63n/Intn (arbitrary value in [0,n))")
		n := args[0].(*Term)
		it := i64
		pos := tb.Cmp(">", it, n, tb.BVConst(0, 64))
		if !e.branch(pos) {
			e.progPanicAt(fr, "panic: invalid argument to Int63n")
		}
		r := e.newIntInput("randInt", i64)
		e.assume(tb.And(tb.Cmp(">=", it, r, tb.BVConst(0, 64)), tb.Cmp("<", it, r, n)))
		return r, true
	case "math/rand.Int63", "math/rand.Int":
		e.stub("math/rand.Int63 (arbitrary non-negative value)")
		r := e.newIntInput("randInt", i64)
		e.assume(tb.Cmp(">=", i64, r, tb.BVConst(0, 64)))
		return r, true
	case "math.Abs":
		x := args[0].(*Term)
		if x.IsConst() && x.IsF {
			f := x.F
			if f < 0 {
				f = -f
			}
			return tb.RealConstF(f), true
		}
		return tb.Ite(tb.Cmp("<", IntTy{}, x, tb.RealConstF(0)), tb.RealExact("-", tb.RealConstF(0), x), x), true
	case "math.Min", "math.Max":
		a, b := args[0].(*Term), args[1].(*Term)
		lt := tb.Cmp("<", IntTy{}, a, b)
		if fn.Name() == "Min" {
			return tb.Ite(lt, a, b), true
		}
		return tb.Ite(lt, b, a), true
	case "time.Until":
		ns, zero := e.timeNs(args[0])
		if zero {
			e.now(fr)
			return tb.BVConst(1<<63, 64), true
		}
		return tb.IntBin("-", i64, ns, e.now(fr), e.ovf), true
	case "(time.Duration).Nanoseconds":
		return args[0], true
	case "(time.Time).Unix":
		ns, zero := e.timeNs(args[0])
		if zero {
			return tb.BVConst(uint64(0xfffffff1886e0900), 64), true
		}
		return tb.IntBin("/", i64, ns, tb.BVConst(1000000000, 64), e.ovf), true
	case "(time.Time).Compare":
		a, za := e.timeNs(args[0])
		b, zb := e.timeNs(args[1])
		if za || zb {
			panic(engineErr("comparison with the zero time.Time is not modelled"))
		}
		return tb.Ite(tb.Cmp("<", i64, a, b), tb.BVConst(^uint64(0), 64), tb.Ite(tb.Eq(a, b), tb.BVConst(0, 64), tb.BVConst(1, 64))), true
	case "sort.SliceStable":
		return e.sortSliceStub(fr, args), true
	// ---------------- xxhash ----------------
	case "github.com/cespare/xxhash/v2.Sum64":
		return e.hashBytes(fr, args[0].(SliceVal)), true
	case "github.com/cespare/xxhash/v2.Sum64String":
		s := args[0].(*StrVal)
		return e.hashTerms(s.B), true
	// ---------------- runtime ----------------
	case "runtime.SetFinalizer", "runtime/debug.FreeOSMemory", "runtime.GC", "runtime.KeepAlive":
		e.stub(name)
		return nil, true
	case "runtime.ReadMemStats":
		e.stub("runtime.ReadMemStats->verifMemStatsFn (HeapInuse/Sys supplied by the harness)")
		c := args[0].(PtrVal).C
		st := c.V.(*StructVal)
		mt := fn.Signature.Params().At(0).Type().(*types.Pointer).Elem().Underlying().(*types.Struct)
		v := e.pkg.Var("verifMemStatsFn")
		var fv *FuncVal
		if v != nil {
			fv, _ = e.globalCell(v).V.(*FuncVal)
		}
		if fv == nil {
			panic(engineErr("runtime.ReadMemStats reached but the harness did not set verifMemStatsFn (%s)", e.stack(fr)))
		}
		r := e.callFunc(fr, fv, nil).(TupleVal)
		for i := 0; i < mt.NumFields(); i++ {
			switch mt.Field(i).Name() {
			case "HeapInuse":
				st.F[i].V = r[0]
			case "Sys":
				st.F[i].V = r[1]
			}
		}
		return nil, true
	// ---------------- errors / fmt ----------------
	case "errors.New":
		e.stub("errors.New")
		pkg := e.prog.ImportedPackage("errors")
		es := pkg.Type("errorString")
		st := e.zero(es.Type()).(*StructVal)
		st.F[0].V = args[0]
		return IfaceVal{T: types.NewPointer(es.Type()), V: PtrVal{C: e.newObjCell(st, es.Type(), "errors.New")}}, true
	case "errors.Is":
		return tb.Bool(e.errorsIs(fr, args[0].(IfaceVal), args[1].(IfaceVal))), true
	case "errors.As":
		return tb.Bool(e.errorsAs(fr, args[0].(IfaceVal), args[1].(IfaceVal))), true
	case "errors.Unwrap":
		return e.unwrap(fr, args[0].(IfaceVal)), true
	case "fmt.Errorf":
		e.stub("fmt.Errorf (%w wrapping only; text opaque)")
		format := e.strArg(args[0])
		va := args[1].(SliceVal)
		wIdx := -1
		argi := 0
		for i := 0; i < len(format); i++ {
			if format[i] != '%' {
				continue
			}
			i++
			for i < len(format) && strings.ContainsRune("+-# 0123456789.", rune(format[i])) {
				i++
			}
			if i >= len(format) {
				break
			}
			if format[i] == '%' {
				continue
			}
			if format[i] == 'w' && wIdx < 0 {
				wIdx = argi
			}
			argi++
		}
		if wIdx >= 0 && wIdx < va.Len {
			inner := e.load(fr, va.Arr.E[va.Off+wIdx]).(IfaceVal)
			if inner.T != nil && e.implements(inner.T, types.Universe.Lookup("error").Type().Underlying().(*types.Interface)) {
				wt := e.prog.ImportedPackage("fmt").Type("wrapError")
				st := e.zero(wt.Type()).(*StructVal)
				st.F[0].V = e.strConst("<errorf>")
				st.F[1].V = inner
				return IfaceVal{T: types.NewPointer(wt.Type()), V: PtrVal{C: e.newObjCell(st, wt.Type(), "fmt.Errorf")}}, true
			}
		}
		pkg := e.prog.ImportedPackage("errors")
		es := pkg.Type("errorString")
		st := e.zero(es.Type()).(*StructVal)
		st.F[0].V = e.strConst("<errorf>")
		return IfaceVal{T: types.NewPointer(es.Type()), V: PtrVal{C: e.newObjCell(st, es.Type(), "fmt.Errorf")}}, true
	case "fmt.Sprintf", "fmt.Sprint", "fmt.Sprintln":
		e.stub("fmt.Sprintf (opaque text)")
		return e.strConst("<fmt>"), true
	case "strconv.FormatUint":
		v := args[0].(*Term)
		b := args[1].(*Term)
		if v.IsConst() && b.IsConst() {
			return e.strConst(strconv.FormatUint(v.U, int(b.U))), true
		}
		// injective uninterpreted rendering: a string atom whose single "byte" is the 64-bit value
		e.stub("strconv.FormatUint (injective atom for symbolic values)")
		return &StrVal{B: []*Term{tb.BVConst('#', 8), v}}, true
	// ---------------- context ----------------
	case "context.WithValue":
		e.stub("context.WithValue")
		parent := args[0].(IfaceVal)
		if parent.T == nil {
			e.progPanicAt(fr, "panic: cannot create context from nil parent")
		}
		key := args[1].(IfaceVal)
		if key.T == nil {
			e.progPanicAt(fr, "panic: nil key")
		}
		vt := e.prog.ImportedPackage("context").Type("valueCtx")
		st := e.zero(vt.Type()).(*StructVal)
		st.F[0].V = parent
		st.F[1].V = key
		st.F[2].V = args[2]
		return IfaceVal{T: types.NewPointer(vt.Type()), V: PtrVal{C: e.newObjCell(st, vt.Type(), "context.WithValue")}}, true
	// ---------------- gob / sort / reflect ----------------
	case "encoding/gob.Register":
		e.stub("gob.Register (no-op)")
		return nil, true
	case "encoding/gob.NewEncoder", "encoding/gob.NewDecoder", "(*encoding/gob.Encoder).Encode", "(*encoding/gob.Decoder).Decode":
		return e.gobStub(fr, fn, args), true
	case "sort.Slice":
		return e.sortSliceStub(fr, args), true
	}
	return nil, false
}

func (e *Engine) hashBytes(fr *frame, s SliceVal) *Term {
	bs := make([]*Term, s.Len)
	for i := 0; i < s.Len; i++ {
		bs[i] = e.load(fr, s.Arr.E[s.Off+i]).(*Term)
	}
	return e.hashTerms(bs)
}

// hashTerms: concrete input -> the real xxhash64; symbolic input -> uninterpreted function of the bytes.
func (e *Engine) hashTerms(bs []*Term) *Term {
	conc := true
	buf := make([]byte, len(bs))
	for i, b := range bs {
		if !b.IsConst() {
			conc = false
			break
		}
		buf[i] = byte(b.U)
	}
	if conc && !e.hashAlwaysUF {
		e.hashConcLens[len(bs)] = true
		if e.hashSymLens[len(bs)] {
			panic(engineErr("harness hashes concrete and symbolic keys of the same length %d: uninterpreted and real hash values would be unrelated", len(bs)))
		}
		return e.tb.BVConst(xxhash.Sum64(buf), 64)
	}
	e.stub("xxhash.Sum64 (uninterpreted function for symbolic keys)")
	if !e.hashAlwaysUF {
		e.hashSymLens[len(bs)] = true
		if e.hashConcLens[len(bs)] {
			panic(engineErr("harness hashes concrete and symbolic keys of the same length %d", len(bs)))
		}
	}
	h := e.tb.App(fmt.Sprintf("xxh%d", len(bs)), BV(64), bs...)
	e.hashApps = append(e.hashApps, hashApp{bs, h})
	if e.mode == "int" {
		panic(engineErr("symbolic hashing in integer mode is not modelled"))
	}
	return h
}

var errorIface = types.Universe.Lookup("error").Type().Underlying().(*types.Interface)

func (e *Engine) unwrap(fr *frame, err IfaceVal) IfaceVal {
	if err.T == nil {
		return IfaceVal{}
	}
	m := e.lookupMethod(err.T, "Unwrap")
	if m == nil {
		return IfaceVal{}
	}
	sig := m.Signature
	if sig.Params().Len() != 0 || sig.Results().Len() != 1 || !types.Identical(sig.Results().At(0).Type(), types.Universe.Lookup("error").Type()) {
		return IfaceVal{}
	}
	return e.callFunc(fr, &FuncVal{Fn: m}, []Value{err.V}).(IfaceVal)
}

func (e *Engine) errorsIs(fr *frame, err, target IfaceVal) bool {
	e.stub("errors.Is (==, Is method, Unwrap chain)")
	if err.T == nil || target.T == nil {
		return err.T == nil && target.T == nil
	}
	for n := 0; n < 20; n++ {
		if types.Comparable(target.T) && types.Identical(err.T, target.T) {
			if e.branch(e.equal(err.V, target.V)) {
				return true
			}
		}
		if m := e.lookupMethod(err.T, "Is"); m != nil {
			sig := m.Signature
			if sig.Params().Len() == 1 && sig.Results().Len() == 1 && isBool(sig.Results().At(0).Type()) {
				r := e.callFunc(fr, &FuncVal{Fn: m}, []Value{err.V, target}).(*Term)
				if e.branch(r) {
					return true
				}
			}
		}
		err = e.unwrap(fr, err)
		if err.T == nil {
			return false
		}
	}
	panic(engineErr("errors.Is: chain too long"))
}

func (e *Engine) errorsAs(fr *frame, err, target IfaceVal) bool {
	e.stub("errors.As (assignability, Unwrap chain)")
	if err.T == nil {
		return false
	}
	if target.T == nil {
		e.progPanicAt(fr, "panic: errors: target cannot be nil")
	}
	pt, ok := target.T.Underlying().(*types.Pointer)
	if !ok {
		e.progPanicAt(fr, "panic: errors: target must be a non-nil pointer")
	}
	cell := target.V.(PtrVal).C
	elem := pt.Elem()
	for n := 0; n < 20; n++ {
		if it, isI := elem.Underlying().(*types.Interface); isI {
			if e.implements(err.T, it) {
				e.store(fr, cell, err)
				return true
			}
		} else if types.Identical(err.T, elem) {
			e.store(fr, cell, err.V)
			return true
		}
		err = e.unwrap(fr, err)
		if err.T == nil {
			return false
		}
	}
	panic(engineErr("errors.As: chain too long"))
}

// ---------------------------------------------------------------------------
// harness intrinsics
// ---------------------------------------------------------------------------

func (e *Engine) intrinsic(fr *frame, name string, args []Value) (Value, bool) {
	tb := e.tb
	switch name {
	case "verifInt64":
		return e.newIntInput(e.strArg(args[0]), i64), true
	case "verifUint64":
		return e.newIntInput(e.strArg(args[0]), u64), true
	case "verifInt":
		return e.newIntInput(e.strArg(args[0]), i64), true
	case "verifByte":
		return e.newInput(e.strArg(args[0]), BV(8)), true
	case "verifBool":
		return e.newInput(e.strArg(args[0]), BoolSort), true
	case "verifFloat":
		return e.newInput(e.strArg(args[0]), RealSort), true
	case "verifChoice":
		n := int(args[1].(*Term).U)
		nm := e.strArg(args[0])
		// a small integer decided by forking: concrete on every path
		t := e.newInput(nm, BV(8))
		e.assume(tb.Cmp("<", IntTy{8, false}, t, tb.BVConst(uint64(n), 8)))
		for i := 0; i < n-1; i++ {
			if e.branch(tb.Eq(t, tb.BVConst(uint64(i), 8))) {
				e.choices = append(e.choices, i)
				return tb.BVConst(uint64(i), 64), true
			}
		}
		e.assume(tb.Eq(t, tb.BVConst(uint64(n-1), 8)))
		e.choices = append(e.choices, n-1)
		return tb.BVConst(uint64(n-1), 64), true
	case "verifAssume":
		c := args[0].(*Term)
		if c.IsConst() {
			if !c.B {
				panic(pathEnd{kind: "infeasible"})
			}
			return nil, true
		}
		if e.feasible(c) == ResUnsat {
			panic(pathEnd{kind: "infeasible"})
		}
		e.assume(c)
		return nil, true
	case "verifAssert":
		if e.ev != nil && e.ev.active {
			e.emitOp(microOp{Kind: "assert", Cond: args[1].(*Term), Label: e.strArg(args[0]), Pos: e.posOf(fr)})
			e.endBlock(false)
			return nil, true
		}
		e.doAssert(e.strArg(args[0]), args[1].(*Term))
		return nil, true
	case "verifReach":
		if e.ev != nil && e.ev.active {
			e.emitOp(microOp{Kind: "reach", Label: e.strArg(args[0]), Pos: e.posOf(fr)})
			e.endBlock(false)
			return nil, true
		}
		e.reached = append(e.reached, e.strArg(args[0]))
		return nil, true
	case "verifThread":
		if e.ev != nil {
			e.ev.decls = append(e.ev.decls, threadDecl{e.strArg(args[0]), args[1].(*FuncVal)})
		} else {
			e.seqThreads = append(e.seqThreads, args[1].(*FuncVal))
		}
		return nil, true
	case "verifFinally":
		if e.ev != nil {
			e.ev.finally = args[0].(*FuncVal)
		} else {
			e.seqFinally = args[0].(*FuncVal)
		}
		return nil, true
	case "verifOption":
		if e.strArg(args[0]) == "hash-uf" {
			// every xxhash of this run, also of concrete keys, is an uninterpreted function value: the solver may
			// let distinct keys collide
			e.hashAlwaysUF = true
			return nil, true
		}
		if e.ev != nil {
			e.ev.options[e.strArg(args[0])] = true
		}
		return nil, true
	case "verifRunThreads":
		if e.ev != nil {
			e.evRunThreads(fr)
			return nil, true
		}
		// sequential mode: one schedule (threads one after the other)
		for _, t := range e.seqThreads {
			e.callFunc(fr, t, nil)
			e.runPending(fr)
		}
		if e.seqFinally != nil {
			e.callFunc(fr, e.seqFinally, nil)
		}
		return nil, true
	case "verifAtomic":
		if e.ev != nil && e.ev.active {
			e.beginAtomic()
			e.callFunc(fr, args[0].(*FuncVal), nil)
			e.endAtomic()
			return nil, true
		}
		e.callFunc(fr, args[0].(*FuncVal), nil)
		return nil, true
	case "verifSched":
		if e.ev != nil && e.ev.active {
			e.emitOp(microOp{Kind: "mark", Label: e.strArg(args[0]), Pos: e.posOf(fr)})
			e.endBlock(false)
		}
		return nil, true
	case "verifClass":
		e.classes = append(e.classes, classRec{e.strArg(args[0]), args[1].(*Term)})
		return nil, true
	case "verifNote":
		msg := e.strArg(args[0])
		va := args[1].(SliceVal)
		var parts []string
		for i := 0; i < va.Len; i++ {
			parts = append(parts, e.describe(va.Arr.E[va.Off+i].V))
		}
		e.notes = append(e.notes, msg+" "+strings.Join(parts, " "))
		return nil, true
	case "verifJanitorCycle":
		// one cleanup cycle of every janitor started so far, on the receiver the constructor passed to it
		for _, r := range e.janitors {
			pv, ok := r.(PtrVal)
			if !ok || pv.C == nil {
				panic(engineErr("verifJanitorCycle: janitor receiver is not a pointer"))
			}
			tt := e.libTypeLocal("Trait")
			fn := e.lookupMethod(types.NewPointer(tt), "invokeCleanup")
			if fn == nil {
				panic(engineErr("verifJanitorCycle: (*Trait).invokeCleanup not found"))
			}
			e.callFunc(fr, &FuncVal{Fn: fn}, []Value{r})
		}
		return tb.BVConst(uint64(len(e.janitors)), 64), true
	case "verifRunBackground":
		e.runPending(fr)
		return nil, true
	case "verifPendingGoroutines":
		return tb.BVConst(uint64(len(e.pending)), 64), true
	case "verifSymbolic":
		return tb.Bool(true), true
	case "verifMapOrder":
		// rotate map iteration order by a harness-chosen concrete amount
		k := int(args[0].(*Term).U)
		e.mapOrder = func(m *MapVal, snap []*mapEntry) []*mapEntry {
			if len(snap) < 2 || k == 0 {
				return snap
			}
			return permute(snap, k)
		}
		return nil, true
	case "verifIte64":
		a, b := args[1].(*Term), args[2].(*Term)
		if e.mode == "int" {
			// integer mode: bit-vector constants become mathematical integers
			if a.IsConst() && a.Sort.K == SBV {
				a = tb.IntConst64(sext(a.U, 64))
			}
			if b.IsConst() && b.Sort.K == SBV {
				b = tb.IntConst64(sext(b.U, 64))
			}
		}
		return tb.Ite(args[0].(*Term), a, b), true
	case "verifImplies":
		return tb.Implies(args[0].(*Term), args[1].(*Term)), true
	case "verifAnd":
		return tb.And(args[0].(*Term), args[1].(*Term)), true
	case "verifOr":
		return tb.Or(args[0].(*Term), args[1].(*Term)), true
	case "verifRealOfInt":
		t := args[0].(*Term)
		if t.Sort.K == SReal {
			return t, true
		}
		if t.IsConst() && t.Sort.K == SBV {
			return tb.RealConstR(new(big.Rat).SetInt64(sext(t.U, 64))), true
		}
		return tb.ToReal(t), true
	case "verifRealAdd":
		return tb.RealExact("+", args[0].(*Term), args[1].(*Term)), true
	case "verifRealSub":
		return tb.RealExact("-", args[0].(*Term), args[1].(*Term)), true
	case "verifRealMul":
		return tb.RealExact("*", args[0].(*Term), args[1].(*Term)), true
	case "verifRealDiv":
		return tb.RealExact("/", args[0].(*Term), args[1].(*Term)), true
	case "verifFloatIdeal":
		// float64 operations on symbolic operands are idealised as exact real operations
		e.fpExact = true
		e.stub("float64 arithmetic idealised as exact reals (no rounding terms)")
		return nil, true
	case "verifHash":
		return e.hashBytes(fr, args[0].(SliceVal)), true
	case "verifIsNilFunc":
		return tb.Bool(args[0].(*FuncVal) == nil), true
	}
	if e.ev != nil {
		if r, ok := e.evIntrinsic(fr, name, args); ok {
			return r, true
		}
	}
	return nil, false
}

// permute returns the k-th permutation (lexicographic index modulo n!) of snap.
func permute(snap []*mapEntry, k int) []*mapEntry {
	n := len(snap)
	pool := append([]*mapEntry{}, snap...)
	f := 1
	for i := 2; i <= n; i++ {
		f *= i
	}
	k %= f
	var out []*mapEntry
	for i := n; i >= 1; i-- {
		f /= i
		j := k / f
		k %= f
		out = append(out, pool[j])
		pool = append(pool[:j], pool[j+1:]...)
	}
	return out
}

// newObjCell allocates an object on behalf of a modelled library call; in event mode it gets an
// allocation-site name so that it can be published into shared state.
func (e *Engine) newObjCell(v Value, t types.Type, site string) *Cell {
	c := e.newCell(v)
	c.Type = t
	if e.ev != nil && e.ev.active && e.ev.cur != nil {
		c.Origin = e.originName(site)
	}
	return c
}
