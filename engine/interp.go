package main

import (
	"fmt"
	"go/constant"
	"go/token"
	"go/types"
	"math/big"
	"strings"

	"golang.org/x/tools/go/ssa"
)

type frame struct {
	fn     *ssa.Function
	env    map[ssa.Value]Value
	bind   []Value
	defers []deferred
	caller *frame
	pos    token.Pos
	// Go panic in flight while this frame's deferred calls run (sequential mode only)
	panicking *pathEnd
	deferCall bool // this frame is a deferred call made by runDefers
}

type deferred struct {
	fv   *FuncVal
	args []Value
	inv  *ssa.CallCommon // for invoke-mode defers
	recv Value
}

type pathEnd struct {
	kind string // "done", "infeasible", "panic", "stop"
	msg  string
	// a Go run-time or explicit panic (recoverable by a deferred call), as opposed to a fatal error such as a deadlock
	recoverable bool
	val         Value
}

func (e *Engine) posStr(p token.Pos) string {
	if !p.IsValid() {
		return "?"
	}
	ps := e.prog.Fset.Position(p)
	f := ps.Filename
	if i := strings.LastIndex(f, "/"); i >= 0 {
		f = f[i+1:]
	}
	return fmt.Sprintf("%s:%d", f, ps.Line)
}

func (e *Engine) stack(fr *frame) string {
	var parts []string
	for f := fr; f != nil; f = f.caller {
		parts = append(parts, fmt.Sprintf("%s@%s", f.fn.String(), e.posStr(f.pos)))
	}
	return strings.Join(parts, " <- ")
}

func (e *Engine) progPanicAt(fr *frame, msg string) {
	panic(pathEnd{kind: "panic", msg: msg + " at " + e.stack(fr), recoverable: true})
}

// callFunc executes fn (or an intercept) with args and returns its result value.
func (e *Engine) callFunc(caller *frame, fv *FuncVal, args []Value) Value {
	isDefer := e.nextIsDeferCall
	e.nextIsDeferCall = false
	if fv == nil {
		e.progPanicAt(caller, "call of nil func")
	}
	if fv.Native != nil {
		return fv.Native(e, args)
	}
	if fv.Builtin != "" {
		return e.builtin(caller, fv.Builtin, args, nil)
	}
	fn := fv.Fn
	if r, ok := e.intercept(caller, fn, args); ok {
		return r
	}
	if fn.Blocks == nil {
		panic(engineErr("unsupported callee without body: %s (called from %s)", fn.String(), e.stack(caller)))
	}
	if !e.allowedPkg(fn) {
		panic(engineErr("unsupported callee outside the modelled packages: %s (called from %s)", fn.String(), e.stack(caller)))
	}
	e.depth++
	if e.depth > 400 {
		panic(engineErr("call depth exceeded at %s", fn.String()))
	}
	defer func() { e.depth-- }()
	e.touchFn(fn)
	fr := &frame{fn: fn, env: make(map[ssa.Value]Value, 32), bind: fv.Bind, caller: caller, deferCall: isDefer}
	for i, p := range fn.Params {
		fr.env[p] = args[i]
	}
	return e.runUnwinding(fr)
}

// runUnwinding gives a Go panic raised inside fr (or below it) the language semantics: the frame's deferred
// calls run, one of them may recover() - then the function returns its named results through the SSA
// Recover block - otherwise the panic continues in the caller. Sequential mode only; in event mode and for
// fatal errors (deadlock) the path ends as before.
func (e *Engine) runUnwinding(fr *frame) (ret Value) {
	if e.ev != nil {
		return e.run(fr)
	}
	defer func() {
		r := recover()
		if r == nil {
			return
		}
		pe, ok := r.(pathEnd)
		if !ok || pe.kind != "panic" || !pe.recoverable || len(fr.defers) == 0 {
			panic(r)
		}
		fr.panicking = &pe
		e.runDefers(fr) // a deferred call that panics itself replaces the panic (Go semantics) by propagating from here
		if fr.panicking != nil {
			panic(*fr.panicking)
		}
		// recovered
		if fr.fn.Recover != nil {
			ret = e.runFrom(fr, fr.fn.Recover)
			return
		}
		res := fr.fn.Signature.Results()
		switch res.Len() {
		case 0:
			ret = nil
		case 1:
			ret = e.zero(res.At(0).Type())
		default:
			tv := make(TupleVal, res.Len())
			for i := range tv {
				tv[i] = e.zero(res.At(i).Type())
			}
			ret = tv
		}
	}()
	return e.run(fr)
}

func (e *Engine) allowedPkg(fn *ssa.Function) bool {
	p := fn.Package()
	if p == nil {
		if fn.Origin() != nil {
			p = fn.Origin().Package()
		}
	}
	if p == nil {
		// synthetic wrappers / bound methods / instantiations without package
		return true
	}
	path := p.Pkg.Path()
	if path == e.pkgPath {
		return true
	}
	switch path {
	case "context", "bytes", "errors", "sort", "strings", "io", "unicode/utf8", "internal/bytealg", "time", "sync/atomic", "internal/godebug", "fmt":
		return true
	}
	return false
}

func (e *Engine) run(fr *frame) Value { return e.runFrom(fr, fr.fn.Blocks[0]) }

func (e *Engine) runFrom(fr *frame, b *ssa.BasicBlock) Value {
	var prev *ssa.BasicBlock
	for {
		e.touchBlock(b)
		var next *ssa.BasicBlock
		for _, ins := range b.Instrs {
			e.steps++
			if e.steps > e.maxSteps {
				panic(pathEnd{kind: "unwind", msg: fmt.Sprintf("step bound %d exceeded in %s", e.maxSteps, fr.fn)})
			}
			if p := ins.Pos(); p.IsValid() {
				fr.pos = p
			}
			switch in := ins.(type) {
			case *ssa.Phi:
				for i, pb := range b.Preds {
					if pb == prev {
						fr.env[in] = e.get(fr, in.Edges[i])
						break
					}
				}
			case *ssa.Jump:
				next = b.Succs[0]
			case *ssa.If:
				c := e.get(fr, in.Cond).(*Term)
				if e.branch(c) {
					next = b.Succs[0]
				} else {
					next = b.Succs[1]
				}
			case *ssa.Return:
				switch len(in.Results) {
				case 0:
					return nil
				case 1:
					return e.get(fr, in.Results[0])
				}
				tv := make(TupleVal, len(in.Results))
				for i, r := range in.Results {
					tv[i] = e.get(fr, r)
				}
				return tv
			case *ssa.RunDefers:
				e.runDefers(fr)
			case *ssa.Panic:
				v := e.get(fr, in.X)
				panic(pathEnd{kind: "panic", msg: "panic: " + e.describe(v) + " at " + e.stack(fr), recoverable: true, val: v})
			case *ssa.Store:
				p := e.get(fr, in.Addr).(PtrVal)
				if p.C == nil {
					e.progPanicAt(fr, "nil pointer dereference (store)")
				}
				e.store(fr, p.C, e.get(fr, in.Val))
			case *ssa.MapUpdate:
				m := e.get(fr, in.Map).(*MapVal)
				if m == nil {
					e.progPanicAt(fr, "assignment to entry in nil map")
				}
				e.mapUpdate(fr, m, e.get(fr, in.Key), e.copyVal(e.get(fr, in.Value)))
			case *ssa.Defer:
				e.doDefer(fr, in)
			case *ssa.Go:
				e.doGo(fr, in)
			case *ssa.Send:
				panic(engineErr("channel send is not modelled (%s)", e.stack(fr)))
			case *ssa.DebugRef:
			case ssa.Value:
				fr.env[in] = e.eval(fr, in)
			default:
				panic(engineErr("unsupported instruction %T in %s", ins, fr.fn))
			}
		}
		if next == nil {
			panic(engineErr("block without terminator in %s", fr.fn))
		}
		prev = b
		b = next
	}
}

func (e *Engine) runDefers(fr *frame) {
	for len(fr.defers) > 0 {
		d := fr.defers[len(fr.defers)-1]
		fr.defers = fr.defers[:len(fr.defers)-1]
		if d.inv != nil {
			e.invoke(fr, d.recv, d.inv.Method, d.args)
		} else {
			e.nextIsDeferCall = true
			e.callFunc(fr, d.fv, d.args)
			e.nextIsDeferCall = false
		}
	}
}

func (e *Engine) doDefer(fr *frame, in *ssa.Defer) {
	c := &in.Call
	args := make([]Value, 0, len(c.Args)+1)
	if c.IsInvoke() {
		recv := e.get(fr, c.Value)
		for _, a := range c.Args {
			args = append(args, e.get(fr, a))
		}
		fr.defers = append(fr.defers, deferred{inv: c, recv: recv, args: args})
		return
	}
	fv := e.get(fr, c.Value).(*FuncVal)
	for _, a := range c.Args {
		args = append(args, e.get(fr, a))
	}
	fr.defers = append(fr.defers, deferred{fv: fv, args: args})
}

func (e *Engine) get(fr *frame, v ssa.Value) Value {
	switch x := v.(type) {
	case *ssa.Const:
		return e.constVal(x)
	case *ssa.Function:
		return &FuncVal{Fn: x}
	case *ssa.Global:
		return PtrVal{C: e.globalCell(x)}
	case *ssa.FreeVar:
		for i, fv := range fr.fn.FreeVars {
			if fv == x {
				return fr.bind[i]
			}
		}
		panic(engineErr("free var %s not bound", x.Name()))
	case *ssa.Builtin:
		return &FuncVal{Builtin: x.Name()}
	}
	r, ok := fr.env[v]
	if !ok {
		panic(engineErr("value %s (%T) not evaluated in %s", v.Name(), v, fr.fn))
	}
	return r
}

func (e *Engine) constVal(c *ssa.Const) Value {
	t := c.Type()
	if c.Value == nil {
		return e.zero(t)
	}
	if it, ok := intTyOf(t); ok {
		v := constant.ToInt(c.Value)
		bi, _ := new(big.Int).SetString(v.ExactString(), 10)
		return e.tb.BVConst(wrapBig(bi, it), it.W)
	}
	if isBool(t) {
		return e.tb.Bool(constant.BoolVal(c.Value))
	}
	if isString(t) {
		return e.strConst(constant.StringVal(c.Value))
	}
	if isFloat(t) {
		f, _ := constant.Float64Val(c.Value)
		return e.tb.RealConstF(f)
	}
	panic(engineErr("constant of type %s", t))
}

func (e *Engine) globalCell(g *ssa.Global) *Cell {
	if c, ok := e.globals[g]; ok {
		return c
	}
	elem := g.Type().(*types.Pointer).Elem()
	c := e.newCell(e.zero(elem))
	e.globals[g] = c
	// sentinel errors of foreign packages (io.EOF, ...) are created by errors.New in
	// package initialisers that are not executed: give each a unique identity.
	if g.Pkg != nil && g.Pkg.Pkg.Path() != e.pkgPath {
		if types.Identical(elem, types.Universe.Lookup("error").Type()) {
			c.V = e.newSentinelError(g.Pkg.Pkg.Path() + "." + g.Name())
		}
	}
	return c
}

// sentinel errors are modelled as *errors.errorString pointing at a unique cell
func (e *Engine) newSentinelError(msg string) Value {
	if v, ok := e.sentinels[msg]; ok {
		return v
	}
	pkg := e.prog.ImportedPackage("errors")
	if pkg == nil {
		panic(engineErr("package errors not loaded"))
	}
	es := pkg.Type("errorString")
	st := e.zero(es.Type()).(*StructVal)
	st.F[0].V = e.strConst(msg)
	cell := e.newCell(st)
	cell.Type = es.Type()
	cell.Origin = "sentinel:" + msg
	v := IfaceVal{T: types.NewPointer(es.Type()), V: PtrVal{C: cell}}
	e.sentinels[msg] = v
	return v
}

func (e *Engine) load(fr *frame, c *Cell) Value {
	if e.ev != nil && e.ev.active {
		switch c.V.(type) {
		case *StructVal, *ArrayVal:
			// aggregates are trees of cells: each leaf decides for itself whether it is shared
			return e.loadAggregate(fr, c)
		}
		if _, mut := e.isMutableCell(c); mut {
			return e.evLoad(fr, c)
		}
	}
	return e.copyVal(c.V)
}

func (e *Engine) store(fr *frame, c *Cell, v Value) {
	if e.ev != nil && e.ev.active {
		if _, named := e.cellName(c); named {
			if _, mut := e.isMutableCell(c); !mut {
				if _, agg := c.V.(*StructVal); !agg {
					if _, agg2 := c.V.(*ArrayVal); !agg2 {
						e.noteMutable(c, "cell")
					}
				}
			}
			e.evStore(fr, c, v)
			return
		}
	}
	if c.Captured && e.ev != nil && e.ev.active && c.Shared == nil {
		e.capturedWrite(c)
	}
	e.storeInto(c, v)
}

func (e *Engine) eval(fr *frame, v ssa.Value) Value {
	switch in := v.(type) {
	case *ssa.Alloc:
		c := e.newCell(e.zero(in.Type().(*types.Pointer).Elem()))
		if e.ev != nil && e.ev.active {
			c.Origin = e.originName(e.siteOf(fr, in))
			c.Type = in.Type().(*types.Pointer).Elem()
		}
		return PtrVal{C: c}
	case *ssa.UnOp:
		return e.unop(fr, in)
	case *ssa.BinOp:
		defer func() {
			if r := recover(); r != nil {
				if ee, ok := r.(engineError); ok && !strings.Contains(ee.msg, " at ") {
					panic(engineError{ee.msg + " at " + e.stack(fr)})
				}
				panic(r)
			}
		}()
		return e.binop(fr, in.Op, in.X.Type(), e.get(fr, in.X), e.get(fr, in.Y), in.Y.Type())
	case *ssa.Call:
		return e.doCall(fr, &in.Call)
	case *ssa.FieldAddr:
		p := e.get(fr, in.X).(PtrVal)
		if p.C == nil {
			e.progPanicAt(fr, "nil pointer dereference (field address)")
		}
		return PtrVal{C: p.C.V.(*StructVal).F[in.Field]}
	case *ssa.Field:
		s := e.get(fr, in.X).(*StructVal)
		return e.copyVal(s.F[in.Field].V)
	case *ssa.IndexAddr:
		return e.indexAddr(fr, in)
	case *ssa.Index:
		x := e.get(fr, in.X)
		idx := e.concreteIndex(fr, e.get(fr, in.Index).(*Term), in.Index.Type())
		switch a := x.(type) {
		case *ArrayVal:
			if idx < 0 || idx >= len(a.E) {
				e.progPanicAt(fr, "index out of range")
			}
			return e.copyVal(a.E[idx].V)
		case *StrVal:
			if idx < 0 || idx >= len(a.B) {
				e.progPanicAt(fr, "string index out of range")
			}
			return a.B[idx]
		}
		panic(engineErr("Index on %T", x))
	case *ssa.Extract:
		return e.get(fr, in.Tuple).(TupleVal)[in.Index]
	case *ssa.MakeInterface:
		return IfaceVal{T: in.X.Type(), V: e.get(fr, in.X)}
	case *ssa.ChangeInterface:
		return e.get(fr, in.X)
	case *ssa.ChangeType:
		return e.get(fr, in.X)
	case *ssa.Convert:
		return e.convert(fr, in.X.Type(), in.Type(), e.get(fr, in.X))
	case *ssa.TypeAssert:
		return e.typeAssert(fr, in)
	case *ssa.MakeClosure:
		bind := make([]Value, len(in.Bindings))
		for i, b := range in.Bindings {
			bind[i] = e.get(fr, b)
		}
		return &FuncVal{Fn: in.Fn.(*ssa.Function), Bind: bind}
	case *ssa.MakeMap:
		mt := in.Type().Underlying().(*types.Map)
		e.mapN++
		m := &MapVal{ID: e.mapN, KeyT: mt.Key(), ElemT: mt.Elem()}
		if e.trackCells {
			e.allMaps = append(e.allMaps, m)
		}
		if e.ev != nil && e.ev.active {
			m.Origin = e.originName(e.siteOf(fr, in))
		}
		return m
	case *ssa.MakeChan:
		e.chanN++
		ch := &ChanVal{ID: e.chanN}
		if e.trackCells {
			e.allChans = append(e.allChans, ch)
		}
		if e.ev != nil && e.ev.active {
			ch.Origin = e.originName(e.siteOf(fr, in))
		}
		return ch
	case *ssa.MakeSlice:
		ln := e.concreteIndex(fr, e.get(fr, in.Len).(*Term), in.Len.Type())
		cp := e.concreteIndex(fr, e.get(fr, in.Cap).(*Term), in.Cap.Type())
		if ln < 0 || cp < ln || cp > 1<<20 {
			e.progPanicAt(fr, "makeslice: len out of range")
		}
		et := in.Type().Underlying().(*types.Slice).Elem()
		arr := &ArrayVal{E: make([]*Cell, cp)}
		for i := range arr.E {
			arr.E[i] = e.newCell(e.zero(et))
		}
		if e.ev != nil && e.ev.active {
			arr.Origin = e.originName(fmt.Sprintf("%s/cap%d", e.siteOf(fr, in), cp))
			arr.Type = types.NewArray(et, int64(cp))
		}
		return SliceVal{Arr: arr, Off: 0, Len: ln, Cap: cp}
	case *ssa.Slice:
		return e.sliceOp(fr, in)
	case *ssa.Lookup:
		return e.lookup(fr, in)
	case *ssa.Range:
		x := e.get(fr, in.X)
		switch m := x.(type) {
		case *MapVal:
			it := &mapIter{m: m}
			if n, ok := e.sharedMap(m); ok {
				it.shared = n
				return it
			}
			if m != nil {
				e.checkMapRead(m)
				it.snap = e.mapSnapshot(fr, m)
			}
			return it
		case *StrVal:
			return &mapIter{str: m}
		}
		panic(engineErr("range over %T", x))
	case *ssa.Next:
		it := e.get(fr, in.Iter).(*mapIter)
		return e.iterNext(fr, it, in)
	case *ssa.Select:
		panic(engineErr("select is not modelled (%s)", e.stack(fr)))
	case *ssa.SliceToArrayPointer:
		panic(engineErr("slice-to-array-pointer is not modelled"))
	case *ssa.MultiConvert:
		panic(engineErr("MultiConvert is not modelled"))
	}
	panic(engineErr("unsupported value instruction %T in %s", v, fr.fn))
}

// concreteIndex resolves an integer term to a concrete int, forking over feasible values if symbolic.
func (e *Engine) concreteIndex(fr *frame, t *Term, ty types.Type) int {
	it, _ := intTyOf(ty)
	if t.IsConst() {
		if t.Sort.K == SBV {
			if it.Signed {
				return int(sext(t.U, t.Sort.W))
			}
			return int(t.U)
		}
		return int(t.I.Int64())
	}
	// enumerate feasible values lazily
	for n := 0; n < 40; n++ {
		v, ok := e.someValue(t)
		if !ok {
			panic(pathEnd{kind: "infeasible"})
		}
		var c *Term
		if t.Sort.K == SBV {
			c = e.tb.BVConst(v.Uint64(), t.Sort.W)
		} else {
			c = e.tb.IntConst(v)
		}
		if e.branch(e.tb.Eq(t, c)) {
			if t.Sort.K == SBV && it.Signed {
				return int(sext(c.U, t.Sort.W))
			}
			if t.Sort.K == SBV {
				return int(c.U)
			}
			return int(v.Int64())
		}
	}
	panic(engineErr("symbolic index with more than 40 feasible values at %s", e.stack(fr)))
}

func (e *Engine) indexAddr(fr *frame, in *ssa.IndexAddr) Value {
	x := e.get(fr, in.X)
	idxT := e.get(fr, in.Index).(*Term)
	switch a := x.(type) {
	case PtrVal: // pointer to array
		if a.C == nil {
			e.progPanicAt(fr, "nil pointer dereference (index address)")
		}
		arr := a.C.V.(*ArrayVal)
		idx := e.boundedIndex(fr, idxT, in.Index.Type(), len(arr.E))
		return PtrVal{C: arr.E[idx]}
	case SliceVal:
		idx := e.boundedIndex(fr, idxT, in.Index.Type(), a.Len)
		return PtrVal{C: a.Arr.E[a.Off+idx]}
	}
	panic(engineErr("IndexAddr on %T", x))
}

// boundedIndex checks 0 <= idx < n (panic path if violated is feasible) and concretises.
func (e *Engine) boundedIndex(fr *frame, t *Term, ty types.Type, n int) int {
	if !t.IsConst() {
		it, _ := intTyOf(ty)
		var nn *Term = e.tb.BVConst(uint64(n), 64)
		inb := e.tb.And(e.tb.Cmp(">=", it, t, e.tb.BVConst(0, 64)), e.tb.Cmp("<", it, t, nn))
		if !e.branch(inb) {
			e.progPanicAt(fr, fmt.Sprintf("index out of range [%s] with length %d", Pretty(t, 3), n))
		}
	}
	idx := e.concreteIndex(fr, t, ty)
	if idx < 0 || idx >= n {
		e.progPanicAt(fr, fmt.Sprintf("index out of range [%d] with length %d", idx, n))
	}
	return idx
}

func (e *Engine) sliceOp(fr *frame, in *ssa.Slice) Value {
	x := e.get(fr, in.X)
	geti := func(v ssa.Value, def int) int {
		if v == nil {
			return def
		}
		return e.concreteIndex(fr, e.get(fr, v).(*Term), v.Type())
	}
	switch a := x.(type) {
	case *StrVal:
		lo := geti(in.Low, 0)
		hi := geti(in.High, len(a.B))
		if lo < 0 || hi < lo || hi > len(a.B) {
			e.progPanicAt(fr, fmt.Sprintf("slice bounds out of range [%d:%d] with length %d", lo, hi, len(a.B)))
		}
		return &StrVal{B: a.B[lo:hi]}
	case SliceVal:
		lo := geti(in.Low, 0)
		hi := geti(in.High, a.Len)
		mx := geti(in.Max, a.Cap)
		if lo < 0 || hi < lo || hi > a.Cap || mx < hi || mx > a.Cap {
			e.progPanicAt(fr, fmt.Sprintf("slice bounds out of range [%d:%d:%d] with capacity %d", lo, hi, mx, a.Cap))
		}
		if a.Arr == nil {
			return SliceVal{}
		}
		return SliceVal{Arr: a.Arr, Off: a.Off + lo, Len: hi - lo, Cap: mx - lo}
	case PtrVal:
		if a.C == nil {
			e.progPanicAt(fr, "nil pointer dereference (slice of array pointer)")
		}
		arr := a.C.V.(*ArrayVal)
		lo := geti(in.Low, 0)
		hi := geti(in.High, len(arr.E))
		mx := geti(in.Max, len(arr.E))
		if lo < 0 || hi < lo || hi > len(arr.E) || mx < hi || mx > len(arr.E) {
			e.progPanicAt(fr, "slice bounds out of range")
		}
		return SliceVal{Arr: arr, Off: lo, Len: hi - lo, Cap: mx - lo}
	}
	panic(engineErr("Slice on %T", x))
}

func (e *Engine) unop(fr *frame, in *ssa.UnOp) Value {
	x := e.get(fr, in.X)
	switch in.Op {
	case token.MUL:
		p := x.(PtrVal)
		if p.C == nil {
			e.progPanicAt(fr, "nil pointer dereference")
		}
		return e.load(fr, p.C)
	case token.NOT:
		return e.tb.Not(x.(*Term))
	case token.SUB:
		t := x.(*Term)
		if isFloat(in.X.Type()) {
			return e.tb.RealBin("-", e.tb.RealConstF(0), t)
		}
		it, _ := intTyOf(in.X.Type())
		return e.tb.IntNeg(it, t, e.ovf)
	case token.XOR:
		it, _ := intTyOf(in.X.Type())
		return e.tb.IntNot(it, x.(*Term))
	case token.ARROW:
		ch := x.(*ChanVal)
		return e.chanRecv(fr, ch, in)
	}
	panic(engineErr("unop %s", in.Op))
}

func (e *Engine) ovf(c *Term) {
	if c.IsConst() && c.B {
		return
	}
	e.rangeConds = append(e.rangeConds, c)
	e.assume(c)
}

func (e *Engine) binop(fr *frame, op token.Token, xt types.Type, x, y Value, yt types.Type) Value {
	switch op {
	case token.EQL:
		return e.equal(x, y)
	case token.NEQ:
		return e.tb.Not(e.equal(x, y))
	}
	if it, ok := intTyOf(xt); ok {
		a, b := x.(*Term), y.(*Term)
		switch op {
		case token.ADD:
			return e.tb.IntBin("+", it, a, b, e.ovf)
		case token.SUB:
			return e.tb.IntBin("-", it, a, b, e.ovf)
		case token.MUL:
			return e.tb.IntBin("*", it, a, b, e.ovf)
		case token.QUO, token.REM:
			if !b.IsConst() {
				z := e.tb.Eq(b, e.tb.BVConst(0, it.W))
				if e.branch(z) {
					e.progPanicAt(fr, "integer divide by zero")
				}
			}
			o := "/"
			if op == token.REM {
				o = "%"
			}
			return e.tb.IntBin(o, it, a, b, e.ovf)
		case token.AND:
			return e.tb.IntBin("&", it, a, b, nil)
		case token.OR:
			return e.tb.IntBin("|", it, a, b, nil)
		case token.XOR:
			return e.tb.IntBin("^", it, a, b, nil)
		case token.AND_NOT:
			return e.tb.IntBin("&^", it, a, b, nil)
		case token.SHL:
			return e.tb.Shift("<<", it, a, b)
		case token.SHR:
			return e.tb.Shift(">>", it, a, b)
		case token.LSS:
			return e.tb.Cmp("<", it, a, b)
		case token.LEQ:
			return e.tb.Cmp("<=", it, a, b)
		case token.GTR:
			return e.tb.Cmp(">", it, a, b)
		case token.GEQ:
			return e.tb.Cmp(">=", it, a, b)
		}
	}
	if isFloat(xt) {
		a, b := x.(*Term), y.(*Term)
		switch op {
		case token.ADD:
			return e.floatOp("+", a, b)
		case token.SUB:
			return e.floatOp("-", a, b)
		case token.MUL:
			return e.floatOp("*", a, b)
		case token.QUO:
			return e.floatOp("/", a, b)
		case token.LSS:
			return e.tb.Cmp("<", IntTy{}, a, b)
		case token.LEQ:
			return e.tb.Cmp("<=", IntTy{}, a, b)
		case token.GTR:
			return e.tb.Cmp(">", IntTy{}, a, b)
		case token.GEQ:
			return e.tb.Cmp(">=", IntTy{}, a, b)
		}
	}
	if isString(xt) {
		a, b := x.(*StrVal), y.(*StrVal)
		switch op {
		case token.ADD:
			r := &StrVal{B: append(append([]*Term{}, a.B...), b.B...)}
			return r
		case token.LSS, token.LEQ, token.GTR, token.GEQ:
			sa, oka := a.Concrete()
			sb, okb := b.Concrete()
			if oka && okb {
				switch op {
				case token.LSS:
					return e.tb.Bool(sa < sb)
				case token.LEQ:
					return e.tb.Bool(sa <= sb)
				case token.GTR:
					return e.tb.Bool(sa > sb)
				default:
					return e.tb.Bool(sa >= sb)
				}
			}
			panic(engineErr("ordering of symbolic strings is not modelled"))
		}
	}
	if isBool(xt) {
		a, b := x.(*Term), y.(*Term)
		switch op {
		case token.AND:
			return e.tb.And(a, b)
		case token.OR:
			return e.tb.Or(a, b)
		}
	}
	panic(engineErr("binop %s on %s", op, xt))
}

// floatOp: one IEEE-754 double operation. Concrete operands fold exactly; symbolic
// results are the exact real result times (1+err) with a fresh |err| <= 2^-53.
func (e *Engine) floatOp(op string, a, b *Term) *Term {
	r := e.tb.RealBin(op, a, b)
	if r.IsConst() {
		return r
	}
	return e.roundF(r)
}

func (e *Engine) roundF(r *Term) *Term {
	if e.fpExact {
		e.fpIdeal++
		return r
	}
	e.fpN++
	er := e.tb.Sym(fmt.Sprintf("fperr#%d", e.fpN), RealSort)
	u := e.tb.RealConstR(new(big.Rat).SetFrac(big.NewInt(1), new(big.Int).Lsh(big.NewInt(1), 53)))
	nu := e.tb.RealConstR(new(big.Rat).SetFrac(big.NewInt(-1), new(big.Int).Lsh(big.NewInt(1), 53)))
	e.assume(e.tb.And(e.tb.Cmp("<=", IntTy{}, nu, er), e.tb.Cmp("<=", IntTy{}, er, u)))
	e.fpRound++
	return e.tb.mk("*", RealSort, r, e.tb.mk("+", RealSort, e.tb.RealConstF(1), er))
}

func (e *Engine) convert(fr *frame, from, to types.Type, x Value) Value {
	fi, fok := intTyOf(from)
	ti, tok := intTyOf(to)
	switch {
	case fok && tok:
		return e.tb.IntConv(fi, ti, x.(*Term), e.ovf)
	case fok && isFloat(to):
		t := x.(*Term)
		if t.IsConst() {
			if t.Sort.K == SBV {
				if fi.Signed {
					return e.tb.RealConstF(float64(sext(t.U, t.Sort.W)))
				}
				return e.tb.RealConstF(float64(t.U))
			}
			f, _ := new(big.Float).SetInt(t.I).Float64()
			return e.tb.RealConstF(f)
		}
		if t.Sort.K != SInt && t.Sort.K != SReal {
			panic(engineErr("int->float conversion of a bit-vector term: run this harness in integer or real mode (%s)", e.stack(fr)))
		}
		return e.roundF(e.tb.ToReal(t))
	case isFloat(from) && tok:
		t := x.(*Term)
		if t.IsConst() && t.IsF {
			f := t.F
			if ti.Signed {
				return e.tb.BVConst(uint64(int64(f)), ti.W)
			}
			return e.tb.BVConst(uint64(f), ti.W)
		}
		// truncation toward zero: fresh integer d with d <= p < d+1 (p>=0) or d-1 < p <= d (p<0)
		e.fpN++
		dsort := IntSort
		if e.mode == "real" {
			dsort = RealSort // relaxed truncation: integrality dropped (over-approximation)
		}
		d := e.tb.Sym(fmt.Sprintf("trunc#%d", e.fpN), dsort)
		dr := e.tb.ToReal(d)
		zero := e.tb.RealConstF(0)
		one := e.tb.RealConstF(1)
		pos := e.tb.And(e.tb.Cmp("<=", IntTy{}, dr, t), e.tb.Cmp("<", IntTy{}, t, e.tb.RealExact("+", dr, one)))
		neg := e.tb.And(e.tb.Cmp("<", IntTy{}, e.tb.RealExact("-", dr, one), t), e.tb.Cmp("<=", IntTy{}, t, dr))
		e.assume(e.tb.Ite(e.tb.Cmp(">=", IntTy{}, t, zero), pos, neg))
		e.ovf(e.tb.InRange(d, ti))
		return d
	case isFloat(from) && isFloat(to):
		return x
	case isString(to):
		switch s := x.(type) {
		case SliceVal: // []byte -> string
			r := &StrVal{B: make([]*Term, s.Len)}
			for i := 0; i < s.Len; i++ {
				r.B[i] = e.load(fr, s.Arr.E[s.Off+i]).(*Term)
			}
			return r
		case *StrVal:
			return s
		case *Term:
			if s.IsConst() {
				return e.strConst(string(rune(s.U)))
			}
		}
	case isString(from):
		if sl, ok := to.Underlying().(*types.Slice); ok {
			if it, ok := intTyOf(sl.Elem()); ok && it.W == 8 {
				s := x.(*StrVal)
				arr := &ArrayVal{E: make([]*Cell, len(s.B))}
				for i := range arr.E {
					arr.E[i] = e.newCell(s.B[i])
				}
				if e.ev != nil && e.ev.active {
					arr.Origin = e.originName(fmt.Sprintf("conv%d@%s", len(s.B), e.posOf(fr)))
					arr.Type = types.NewArray(sl.Elem(), int64(len(s.B)))
				}
				return SliceVal{Arr: arr, Len: len(s.B), Cap: len(s.B)}
			}
		}
	}
	if types.Identical(from.Underlying(), to.Underlying()) {
		return x
	}
	if _, ok := to.Underlying().(*types.Pointer); ok {
		if _, ok := from.Underlying().(*types.Pointer); ok {
			return x
		}
	}
	panic(engineErr("conversion %s -> %s of a %T is not modelled (%s)", from, to, x, e.stack(fr)))
}

func (e *Engine) implements(dyn types.Type, iface *types.Interface) bool {
	return types.Implements(dyn, iface)
}

func (e *Engine) typeAssert(fr *frame, in *ssa.TypeAssert) Value {
	x := e.get(fr, in.X).(IfaceVal)
	ok := false
	var res Value
	if x.T != nil {
		if it, isI := in.AssertedType.Underlying().(*types.Interface); isI {
			ok = e.implements(x.T, it)
			if ok {
				res = x
			}
		} else {
			ok = types.Identical(x.T, in.AssertedType)
			if ok {
				res = x.V
			}
		}
	}
	if in.CommaOk {
		if !ok {
			res = e.zero(in.AssertedType)
		}
		return TupleVal{res, e.tb.Bool(ok)}
	}
	if !ok {
		dt := "nil"
		if x.T != nil {
			dt = x.T.String()
		}
		e.progPanicAt(fr, fmt.Sprintf("interface conversion: interface is %s, not %s", dt, in.AssertedType))
	}
	return res
}

func (e *Engine) doCall(fr *frame, c *ssa.CallCommon) Value {
	if c.IsInvoke() {
		recv := e.get(fr, c.Value)
		args := make([]Value, len(c.Args))
		for i, a := range c.Args {
			args[i] = e.get(fr, a)
		}
		return e.invoke(fr, recv, c.Method, args)
	}
	args := make([]Value, len(c.Args))
	for i, a := range c.Args {
		args[i] = e.get(fr, a)
	}
	if b, ok := c.Value.(*ssa.Builtin); ok {
		return e.builtin(fr, b.Name(), args, c)
	}
	fv := e.get(fr, c.Value).(*FuncVal)
	return e.callFunc(fr, fv, args)
}

func (e *Engine) invoke(fr *frame, recv Value, m *types.Func, args []Value) Value {
	iv, ok := recv.(IfaceVal)
	if !ok {
		panic(engineErr("invoke on %T", recv))
	}
	if iv.T == nil {
		e.progPanicAt(fr, "nil pointer dereference (method "+m.Name()+" on nil interface)")
	}
	fn := e.prog.LookupMethod(iv.T, m.Pkg(), m.Name())
	if fn == nil {
		panic(engineErr("method %s not found on %s", m.Name(), iv.T))
	}
	all := append([]Value{iv.V}, args...)
	return e.callFunc(fr, &FuncVal{Fn: fn}, all)
}

// callMethodByName invokes method name on an interface value if the dynamic type has it.
func (e *Engine) lookupMethod(t types.Type, name string) *ssa.Function {
	ms := e.prog.MethodSets.MethodSet(t)
	for i := 0; i < ms.Len(); i++ {
		sel := ms.At(i)
		if sel.Obj().Name() == name {
			return e.prog.MethodValue(sel)
		}
	}
	return nil
}

func (e *Engine) builtin(fr *frame, name string, args []Value, c *ssa.CallCommon) Value {
	switch name {
	case "len":
		switch x := args[0].(type) {
		case *StrVal:
			return e.tb.BVConst(uint64(len(x.B)), 64)
		case SliceVal:
			return e.tb.BVConst(uint64(x.Len), 64)
		case *MapVal:
			if x == nil {
				return e.tb.BVConst(0, 64)
			}
			return e.mapLenTerm(fr, x)
		case *ArrayVal:
			return e.tb.BVConst(uint64(len(x.E)), 64)
		case PtrVal:
			return e.tb.BVConst(uint64(len(x.C.V.(*ArrayVal).E)), 64)
		case *ChanVal:
			return e.tb.BVConst(0, 64)
		}
	case "cap":
		switch x := args[0].(type) {
		case SliceVal:
			return e.tb.BVConst(uint64(x.Cap), 64)
		case *ArrayVal:
			return e.tb.BVConst(uint64(len(x.E)), 64)
		}
	case "append":
		s := args[0].(SliceVal)
		var add []Value
		switch t := args[1].(type) {
		case SliceVal:
			for i := 0; i < t.Len; i++ {
				add = append(add, e.load(fr, t.Arr.E[t.Off+i]))
			}
		case *StrVal:
			for _, b := range t.B {
				add = append(add, b)
			}
		}
		if len(add) == 0 {
			return s
		}
		if s.Arr != nil && s.Len+len(add) <= s.Cap {
			for i, v := range add {
				e.store(fr, s.Arr.E[s.Off+s.Len+i], v)
			}
			return SliceVal{Arr: s.Arr, Off: s.Off, Len: s.Len + len(add), Cap: s.Cap}
		}
		// grow: Go's growth policy is unspecified; the model doubles (>= needed)
		nc := s.Cap * 2
		if nc < s.Len+len(add) {
			nc = s.Len + len(add)
		}
		var et types.Type
		if c != nil {
			et = c.Args[0].Type().Underlying().(*types.Slice).Elem()
		}
		arr := &ArrayVal{E: make([]*Cell, nc)}
		for i := range arr.E {
			switch {
			case i < s.Len:
				arr.E[i] = e.newCell(e.load(fr, s.Arr.E[s.Off+i]))
			case i < s.Len+len(add):
				arr.E[i] = e.newCell(e.copyVal(add[i-s.Len]))
			default:
				if et == nil {
					panic(engineErr("append without static type"))
				}
				arr.E[i] = e.newCell(e.zero(et))
			}
		}
		if e.ev != nil && e.ev.active && e.ev.cur != nil && et != nil {
			arr.Origin = e.originName(fmt.Sprintf("append%d@%s", nc, e.posOf(fr)))
			arr.Type = types.NewArray(et, int64(nc))
		}
		return SliceVal{Arr: arr, Off: 0, Len: s.Len + len(add), Cap: nc}
	case "copy":
		d := args[0].(SliceVal)
		n := d.Len
		switch s := args[1].(type) {
		case SliceVal:
			if s.Len < n {
				n = s.Len
			}
			tmp := make([]Value, n)
			for i := 0; i < n; i++ {
				tmp[i] = e.load(fr, s.Arr.E[s.Off+i])
			}
			for i := 0; i < n; i++ {
				e.store(fr, d.Arr.E[d.Off+i], tmp[i])
			}
		case *StrVal:
			if len(s.B) < n {
				n = len(s.B)
			}
			for i := 0; i < n; i++ {
				e.store(fr, d.Arr.E[d.Off+i], s.B[i])
			}
		}
		return e.tb.BVConst(uint64(n), 64)
	case "delete":
		m := args[0].(*MapVal)
		if m != nil {
			e.mapDelete(fr, m, args[1])
		}
		return nil
	case "close":
		ch := args[0].(*ChanVal)
		e.chanClose(fr, ch)
		return nil
	case "panic":
		func() {
			defer func() {
				if r := recover(); r != nil {
					if pe, ok := r.(pathEnd); ok {
						pe.val = args[0]
						panic(pe)
					}
					panic(r)
				}
			}()
			e.progPanicAt(fr, "panic: "+e.describe(args[0]))
		}()
	case "recover":
		// effective only when called directly by a deferred function while its caller is panicking
		if fr.deferCall && fr.caller != nil && fr.caller.panicking != nil {
			pe := fr.caller.panicking
			fr.caller.panicking = nil
			if iv, ok := pe.val.(IfaceVal); ok && iv.T != nil {
				return iv
			}
			return IfaceVal{T: types.Typ[types.String], V: e.strConst(pe.msg)}
		}
		return IfaceVal{}
	case "print", "println":
		return nil
	case "ssa:wrapnilchk":
		if p, ok := args[0].(PtrVal); ok && p.C == nil {
			e.progPanicAt(fr, "value method called using nil pointer")
		}
		return args[0]
	case "min", "max":
		var ty types.Type
		if c != nil {
			ty = c.Args[0].Type()
		}
		r := args[0].(*Term)
		for _, a := range args[1:] {
			t := a.(*Term)
			var lt *Term
			if ty != nil && isFloat(ty) {
				lt = e.tb.Cmp("<", IntTy{}, t, r)
			} else {
				it, _ := intTyOf(ty)
				lt = e.tb.Cmp("<", it, t, r)
			}
			if name == "min" {
				r = e.tb.Ite(lt, t, r)
			} else {
				r = e.tb.Ite(lt, r, t)
			}
		}
		return r
	}
	panic(engineErr("builtin %s on %T not modelled", name, args[0]))
}

// ---- maps ----

func (e *Engine) mapFind(fr *frame, m *MapVal, k Value) *mapEntry {
	if n, ok := e.sharedMap(m); ok {
		found, v := e.evMapLookup(fr, n, k)
		if !found {
			return nil
		}
		return &mapEntry{K: k, V: v}
	}
	e.checkMapRead(m)
	for _, en := range m.Entries {
		if en.Deleted {
			continue
		}
		if e.branch(e.equal(en.K, k)) {
			return en
		}
	}
	return nil
}

// checkMapRead / checkMapWrite: a named (setup) map that a thread mutates becomes shared mutable state.
func (e *Engine) checkMapRead(m *MapVal) {}

func (e *Engine) checkMapWrite(m *MapVal) bool {
	if e.ev == nil || !e.ev.active || m == nil {
		return false
	}
	n, ok := e.mapName(m)
	if !ok {
		return false
	}
	if m.Sync {
		e.ev.reg.syncMap[n] = true // a configuration may only ever write to it
	}
	if !e.ev.reg.mutable[n] {
		e.ev.reg.setMutable(n, "map")
		panic(restartExploration{"map " + n + " turned out to be mutable"})
	}
	return true
}

func (e *Engine) mapUpdate(fr *frame, m *MapVal, k, v Value) {
	if e.checkMapWrite(m) {
		n, _ := e.mapName(m)
		e.evMapUpdate(fr, n, k, v)
		return
	}
	if en := e.mapFind(fr, m, k); en != nil {
		en.V = v
		return
	}
	m.Entries = append(m.Entries, &mapEntry{K: k, V: v})
}

func (e *Engine) mapDelete(fr *frame, m *MapVal, k Value) {
	if e.checkMapWrite(m) {
		n, _ := e.mapName(m)
		e.evMapDelete(fr, n, k)
		return
	}
	if en := e.mapFind(fr, m, k); en != nil {
		en.Deleted = true
		// compact
		var out []*mapEntry
		for _, x := range m.Entries {
			if !x.Deleted {
				out = append(out, x)
			}
		}
		m.Entries = out
	}
}

func (e *Engine) mapLenTerm(fr *frame, m *MapVal) *Term {
	if n, ok := e.sharedMap(m); ok {
		return e.evMapLen(fr, n)
	}
	return e.tb.BVConst(uint64(e.mapLen(fr, m)), 64)
}

func (e *Engine) mapLen(fr *frame, m *MapVal) int {
	n := 0
	for _, en := range m.Entries {
		if !en.Deleted {
			n++
		}
	}
	return n
}

func (e *Engine) mapSnapshot(fr *frame, m *MapVal) []*mapEntry {
	snap := append([]*mapEntry{}, m.Entries...)
	if e.mapOrder != nil {
		snap = e.mapOrder(m, snap)
	}
	return snap
}

func (e *Engine) lookup(fr *frame, in *ssa.Lookup) Value {
	x := e.get(fr, in.X)
	switch m := x.(type) {
	case *StrVal:
		idx := e.boundedIndex(fr, e.get(fr, in.Index).(*Term), in.Index.Type(), len(m.B))
		return m.B[idx]
	case *MapVal:
		var en *mapEntry
		if m != nil {
			en = e.mapFind(fr, m, e.get(fr, in.Index))
		}
		var v Value
		if en != nil {
			v = e.copyVal(en.V)
		} else {
			v = e.zero(in.X.Type().Underlying().(*types.Map).Elem())
		}
		if in.CommaOk {
			return TupleVal{v, e.tb.Bool(en != nil)}
		}
		return v
	}
	panic(engineErr("lookup on %T", x))
}

func (e *Engine) iterNext(fr *frame, it *mapIter, in *ssa.Next) Value {
	if it.str != nil {
		if it.pos >= len(it.str.B) {
			return TupleVal{e.tb.Bool(false), e.tb.BVConst(0, 64), e.tb.BVConst(0, 32)}
		}
		b := it.str.B[it.pos]
		if !b.IsConst() || b.U >= 0x80 {
			panic(engineErr("range over non-ASCII/symbolic string"))
		}
		i := it.pos
		it.pos++
		return TupleVal{e.tb.Bool(true), e.tb.BVConst(uint64(i), 64), e.tb.BVConst(b.U, 32)}
	}
	tt := in.Type().(*types.Tuple)
	if it.shared != "" {
		e.beginAtomic()
		idx := e.evMapNext(fr, it.shared, it.pos)
		var res Value
		if idx >= 0 {
			it.pos = idx + 1
			kr := e.ev.reg.mapKeys[it.shared][idx]
			_, v := e.evMapLookup2(fr, it.shared, kr.val, true)
			res = TupleVal{e.tb.Bool(true), kr.val, v}
		}
		e.endAtomic()
		if idx >= 0 {
			return res
		}
		it.pos = 1 << 30
		it.shared = "done"
		it.m = nil
	}
	for it.m != nil && it.pos < len(it.snap) {
		en := it.snap[it.pos]
		it.pos++
		if en.Deleted {
			continue
		}
		return TupleVal{e.tb.Bool(true), en.K, e.copyVal(en.V)}
	}
	var zk, zv Value
	if tt.At(1).Type() != nil {
		if b, ok := tt.At(1).Type().(*types.Basic); !ok || b.Kind() != types.Invalid {
			zk = e.zero(tt.At(1).Type())
		}
	}
	if tt.At(2).Type() != nil {
		if b, ok := tt.At(2).Type().(*types.Basic); !ok || b.Kind() != types.Invalid {
			zv = e.zero(tt.At(2).Type())
		}
	}
	return TupleVal{e.tb.Bool(false), zk, zv}
}

// ---- channels (only close / receive on chan struct{} are modelled) ----

func (e *Engine) chanClose(fr *frame, ch *ChanVal) {
	if ch == nil {
		e.progPanicAt(fr, "close of nil channel")
	}
	if e.ev != nil && e.ev.active {
		if _, ok := e.chanName(ch); ok || ch.Origin != "" {
			if !ok {
				ch.Name = ch.Origin
				e.ev.chanByName[ch.Name] = ch
			}
			e.evChanClose(fr, ch)
			return
		}
	}
	if ch.Closed {
		e.progPanicAt(fr, "close of closed channel")
	}
	ch.Closed = true
}

func (e *Engine) chanRecv(fr *frame, ch *ChanVal, in *ssa.UnOp) Value {
	evDone := false
	if e.ev != nil && e.ev.active && ch != nil {
		if _, ok := e.chanName(ch); ok {
			e.evChanRecv(fr, ch)
			evDone = true
		}
	}
	if evDone {
	} else {
		if ch == nil || !ch.Closed {
			// sequential mode: nobody else can close it -> run pending goroutines first
			e.runPending(fr)
			if ch == nil || !ch.Closed {
				panic(pathEnd{kind: "panic", msg: "deadlock: receive on a channel that is never closed at " + e.stack(fr)})
			}
		}
	}
	et := in.X.Type().Underlying().(*types.Chan).Elem()
	z := e.zero(et)
	if in.CommaOk {
		return TupleVal{z, e.tb.Bool(false)}
	}
	return z
}

// ---- goroutines ----

type goroutine struct {
	fv   *FuncVal
	args []Value
	inv  *ssa.CallCommon
	recv Value
	pos  string
}

func (e *Engine) doGo(fr *frame, in *ssa.Go) {
	c := &in.Call
	var g goroutine
	g.pos = e.posStr(in.Pos())
	if c.IsInvoke() {
		g.inv = c
		g.recv = e.get(fr, c.Value)
	} else {
		g.fv = e.get(fr, c.Value).(*FuncVal)
		if g.fv.Fn != nil {
			n := g.fv.Fn.String()
			// background workers of the constructors are never started: the harness drives cleanup itself
			if strings.HasSuffix(n, ".janitor") || strings.HasSuffix(n, ".reportItemsCount") ||
				strings.Contains(n, ".janitor$bound") || strings.Contains(n, ".reportItemsCount$bound") {
				e.skippedGo[n]++
				if strings.Contains(n, ".janitor") {
					// remember on which Trait the constructor started its janitor: verifJanitorCycle runs
					// one cleanup cycle on exactly that receiver
					var recv Value
					if len(c.Args) > 0 {
						recv = e.get(fr, c.Args[0])
					} else if len(g.fv.Bind) > 0 {
						recv = g.fv.Bind[0]
					}
					if recv != nil {
						e.janitors = append(e.janitors, recv)
					}
				}
				return
			}
		}
	}
	for _, a := range c.Args {
		g.args = append(g.args, e.get(fr, a))
	}
	if e.ev != nil && e.ev.active {
		e.evGo(fr, g)
		return
	}
	e.pending = append(e.pending, g) // sequential mode, or the sequential setup of a concurrent harness
}

// runPending runs queued goroutines to completion (sequential mode).
func (e *Engine) runPending(fr *frame) {
	for len(e.pending) > 0 {
		g := e.pending[0]
		e.pending = e.pending[1:]
		e.goRuns++
		if g.inv != nil {
			e.invoke(fr, g.recv, g.inv.Method, g.args)
		} else {
			e.callFunc(fr, g.fv, g.args)
		}
	}
}
