package main

import (
	"fmt"
	"go/types"

	"golang.org/x/tools/go/ssa"
)

// ---------------------------------------------------------------------------
// encoding/gob modelled as a record stream.
//
// Encode(v) snapshots the exported fields of the struct v (through pointers/interfaces),
// dropping zero-valued fields exactly as gob does, stores the record in a side table and
// writes ONE handle byte (the record index) through the real io.Writer chain of the code
// under test. Decode(&dst) reads one byte through the real io.Reader chain, then applies
// gob's field semantics: transmitted fields are set, untransmitted fields are left as they
// are, a []byte destination with enough capacity is reused in place.
// ---------------------------------------------------------------------------

type gobField struct {
	name string
	val  Value
}

type gobRecord struct {
	typ    string
	fields []gobField
}

type gobState struct {
	records []gobRecord
}

type gobEnc struct{ w IfaceVal }
type gobDec struct{ r IfaceVal }

func isZeroVal(v Value) bool {
	switch x := v.(type) {
	case *Term:
		if !x.IsConst() {
			return false
		}
		switch x.Sort.K {
		case SBool:
			return !x.B
		case SBV:
			return x.U == 0
		case SInt:
			return x.I.Sign() == 0
		case SReal:
			return x.R.Sign() == 0
		}
	case *StrVal:
		return len(x.B) == 0
	case SliceVal:
		return x.Len == 0
	case IfaceVal:
		return x.T == nil
	case PtrVal:
		return x.C == nil
	case *MapVal:
		return x == nil || len(x.Entries) == 0
	case *StructVal:
		for _, f := range x.F {
			if !isZeroVal(f.V) {
				return false
			}
		}
		return true
	}
	return false
}

func (e *Engine) gobStub(fr *frame, fn *ssa.Function, args []Value) Value {
	if e.gob == nil {
		e.gob = &gobState{}
	}
	e.stub("encoding/gob (record stream: zero fields omitted and not reset, []byte reused when capacity suffices; wire format not modelled)")
	errT := types.Universe.Lookup("error").Type()
	_ = errT
	switch fn.Name() {
	case "NewEncoder":
		return PtrVal{C: e.newCell(&gobEnc{w: args[0].(IfaceVal)})}
	case "NewDecoder":
		return PtrVal{C: e.newCell(&gobDec{r: args[0].(IfaceVal)})}
	case "Encode":
		enc := args[0].(PtrVal).C.V.(*gobEnc)
		v := args[1].(IfaceVal)
		st, sty := e.gobStruct(fr, v)
		if st == nil {
			panic(engineErr("gob stub: Encode of %s is not modelled", v.T))
		}
		rec := gobRecord{typ: sty.String()}
		us := sty.Underlying().(*types.Struct)
		for i := 0; i < us.NumFields(); i++ {
			f := us.Field(i)
			if !f.Exported() {
				continue
			}
			fv := e.copyVal(e.load(fr, st.F[i]))
			if symTerm, ok := fv.(*Term); ok && !symTerm.IsConst() {
				// symbolic scalar: zero-ness decides whether the field is transmitted
				zero := e.tb.Eq(symTerm, e.zeroLike(symTerm))
				if e.branch(zero) {
					continue
				}
			} else if isZeroVal(fv) {
				continue
			}
			if sl, ok := fv.(SliceVal); ok {
				// snapshot bytes
				arr := &ArrayVal{E: make([]*Cell, sl.Len)}
				for k := 0; k < sl.Len; k++ {
					arr.E[k] = e.newCell(e.load(fr, sl.Arr.E[sl.Off+k]))
				}
				fv = SliceVal{Arr: arr, Len: sl.Len, Cap: sl.Len}
			}
			rec.fields = append(rec.fields, gobField{f.Name(), fv})
		}
		e.gob.records = append(e.gob.records, rec)
		idx := len(e.gob.records) - 1
		if idx > 250 {
			panic(engineErr("gob stub: too many records"))
		}
		// one handle byte through the real writer chain
		arr := &ArrayVal{E: []*Cell{e.newCell(e.tb.BVConst(uint64(idx), 8))}}
		res := e.invokeByName(fr, enc.w, "Write", []Value{SliceVal{Arr: arr, Len: 1, Cap: 1}}).(TupleVal)
		return res[1]
	case "Decode":
		dec := args[0].(PtrVal).C.V.(*gobDec)
		dst := args[1].(IfaceVal)
		arr := &ArrayVal{E: []*Cell{e.newCell(e.tb.BVConst(0, 8))}}
		res := e.invokeByName(fr, dec.r, "Read", []Value{SliceVal{Arr: arr, Len: 1, Cap: 1}}).(TupleVal)
		n := res[0].(*Term)
		rerr := res[1].(IfaceVal)
		if !n.IsConst() {
			panic(engineErr("gob stub: symbolic read length"))
		}
		if n.U == 0 {
			if rerr.T == nil {
				panic(engineErr("gob stub: reader returned 0 bytes and nil error"))
			}
			return rerr
		}
		hb := arr.E[0].V.(*Term)
		if !hb.IsConst() {
			panic(engineErr("gob stub: symbolic record handle"))
		}
		if int(hb.U) >= len(e.gob.records) {
			// bytes that no Encoder produced (e.g. an error text): gob reports a corrupt stream
			return e.newSentinelError("encoding/gob.corruptStream")
		}
		rec := e.gob.records[hb.U]
		pt, ok := dst.T.Underlying().(*types.Pointer)
		if !ok {
			panic(engineErr("gob stub: Decode target %s", dst.T))
		}
		cell := dst.V.(PtrVal).C
		if cell == nil {
			e.progPanicAt(fr, "gob: Decode into nil pointer")
		}
		us, ok := pt.Elem().Underlying().(*types.Struct)
		if !ok {
			panic(engineErr("gob stub: Decode target %s", dst.T))
		}
		st := cell.V.(*StructVal)
		for _, f := range rec.fields {
			for i := 0; i < us.NumFields(); i++ {
				if us.Field(i).Name() != f.name {
					continue
				}
				if sv, ok := f.val.(SliceVal); ok {
					cur, _ := e.load(fr, st.F[i]).(SliceVal)
					if cur.Arr != nil && cur.Cap >= sv.Len {
						// reuse the destination's backing array (gob: value.SetLen(n))
						for k := 0; k < sv.Len; k++ {
							e.store(fr, cur.Arr.E[cur.Off+k], sv.Arr.E[k].V)
						}
						e.store(fr, st.F[i], SliceVal{Arr: cur.Arr, Off: cur.Off, Len: sv.Len, Cap: cur.Cap})
					} else {
						na := &ArrayVal{E: make([]*Cell, sv.Len)}
						for k := range na.E {
							na.E[k] = e.newCell(sv.Arr.E[k].V)
						}
						e.store(fr, st.F[i], SliceVal{Arr: na, Len: sv.Len, Cap: sv.Len})
					}
				} else {
					e.store(fr, st.F[i], e.copyVal(f.val))
				}
			}
		}
		return IfaceVal{}
	}
	panic(engineErr("gob stub: %s", fn))
}

func (e *Engine) zeroLike(t *Term) *Term {
	switch t.Sort.K {
	case SBool:
		return e.tb.Bool(false)
	case SBV:
		return e.tb.BVConst(0, t.Sort.W)
	case SInt:
		return e.tb.IntConst64(0)
	}
	return e.tb.RealConstF(0)
}

// gobStruct finds the struct behind an interface value (through pointers).
func (e *Engine) gobStruct(fr *frame, v IfaceVal) (*StructVal, types.Type) {
	t := v.T
	val := v.V
	for n := 0; n < 4; n++ {
		if t == nil {
			return nil, nil
		}
		switch u := t.Underlying().(type) {
		case *types.Pointer:
			p := val.(PtrVal)
			if p.C == nil {
				return nil, nil
			}
			t = u.Elem()
			val = p.C.V
			continue
		case *types.Struct:
			st, _ := val.(*StructVal)
			return st, t
		}
		return nil, nil
	}
	return nil, nil
}

func (e *Engine) invokeByName(fr *frame, recv IfaceVal, name string, args []Value) Value {
	if recv.T == nil {
		e.progPanicAt(fr, "nil pointer dereference (method "+name+" on nil interface)")
	}
	fn := e.lookupMethod(recv.T, name)
	if fn == nil {
		panic(engineErr("method %s not found on %s", name, recv.T))
	}
	return e.callFunc(fr, &FuncVal{Fn: fn}, append([]Value{recv.V}, args...))
}

// ---------------------------------------------------------------------------
// sort.Slice: any outcome of any correct (possibly unstable) comparison sort. An insertion
// sort is run with the REAL less closure; every comparison forks on its symbolic result,
// ties are resolved both ways.
// ---------------------------------------------------------------------------

func (e *Engine) sortSliceStub(fr *frame, args []Value) Value {
	e.stub("sort.Slice (insertion sort over the real less closure; ties resolved nondeterministically)")
	iv := args[0].(IfaceVal)
	s, ok := iv.V.(SliceVal)
	if !ok {
		panic(engineErr("sort.Slice on %T", iv.V))
	}
	less := args[1].(*FuncVal)
	if s.Len > 8 {
		panic(engineErr("sort.Slice stub: more than 8 elements (%d)", s.Len))
	}
	idx := func(i int) *Term { return e.tb.BVConst(uint64(i), 64) }
	lt := func(i, j int) bool {
		return e.branch(e.callFunc(fr, less, []Value{idx(i), idx(j)}).(*Term))
	}
	swap := func(i, j int) {
		a, b := s.Arr.E[s.Off+i], s.Arr.E[s.Off+j]
		va, vb := e.copyVal(a.V), e.copyVal(b.V)
		e.storeInto(a, vb)
		e.storeInto(b, va)
	}
	for i := 1; i < s.Len; i++ {
		for j := i; j > 0; j-- {
			if lt(j, j-1) {
				swap(j, j-1)
				continue
			}
			if lt(j-1, j) {
				break
			}
			// tie: an unstable sort may leave the two in either order
			t := e.newInput("sortTie", BoolSort)
			if e.branch(t) {
				swap(j, j-1)
				continue
			}
			break
		}
	}
	return nil
}

var _ = fmt.Sprintf
