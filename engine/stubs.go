package main

import (
	"golang.org/x/tools/go/ssa"
)

type gobState struct{}

func (e *Engine) gobStub(fr *frame, fn *ssa.Function, args []Value) Value {
	panic(engineErr("gob stub not built yet"))
}

func (e *Engine) sortSliceStub(fr *frame, args []Value) Value {
	panic(engineErr("sort.Slice stub not built yet"))
}
