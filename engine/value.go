package main

import (
	"fmt"
	"go/types"
	"strings"

	"golang.org/x/tools/go/ssa"
)

type Value interface{}

type Cell struct {
	V        Value
	ID       int
	Shared   *SharedInfo // event mode: non-nil for published / shadow cells (setup cells are named by ID)
	Shadow   bool        // event mode: stand-in for an object allocated by another thread
	Captured bool        // event mode: private variable reachable from a goroutine's closure
	CapRoot  string      // allocation-site name of the captured object this cell belongs to
	Origin   string      // event mode: allocation-site name of a thread-allocated object
	Type     types.Type  // static type of an allocated object (for shadows)
}

type PtrVal struct{ C *Cell } // C == nil: nil pointer

type StructVal struct{ F []*Cell }
type ArrayVal struct {
	E      []*Cell
	Name   string
	Origin string
	Type   types.Type
}

type SliceVal struct {
	Arr           *ArrayVal // nil: nil slice
	Off, Len, Cap int
}

type StrVal struct{ B []*Term } // bytes, BV8 each

type mapEntry struct {
	K       Value
	V       Value
	Deleted bool
}

type MapVal struct {
	Entries []*mapEntry
	ID      int
	KeyT    types.Type
	ElemT   types.Type
	Name    string
	Origin  string
	Sync    bool // models a sync.Map
}

type IfaceVal struct {
	T types.Type // nil: nil interface
	V Value
}

type FuncVal struct {
	Fn      *ssa.Function
	Bind    []Value
	Builtin string
	Native  func(e *Engine, args []Value) Value
}

type ChanVal struct {
	Closed bool
	ID     int
	Name   string
	Origin string
}

type TupleVal []Value

type mapIter struct {
	m      *MapVal
	snap   []*mapEntry
	pos    int
	str    *StrVal
	shared string // event mode: name of the shared mutable map iterated
}

func isNilable(t types.Type) bool {
	switch t.Underlying().(type) {
	case *types.Pointer, *types.Slice, *types.Map, *types.Chan, *types.Signature, *types.Interface:
		return true
	}
	return false
}

func intTyOf(t types.Type) (IntTy, bool) {
	b, ok := t.Underlying().(*types.Basic)
	if !ok {
		return IntTy{}, false
	}
	switch b.Kind() {
	case types.Int8:
		return IntTy{8, true}, true
	case types.Int16:
		return IntTy{16, true}, true
	case types.Int32:
		return IntTy{32, true}, true
	case types.Int64, types.Int, types.UntypedInt, types.UntypedRune:
		return IntTy{64, true}, true
	case types.Uint8:
		return IntTy{8, false}, true
	case types.Uint16:
		return IntTy{16, false}, true
	case types.Uint32:
		return IntTy{32, false}, true
	case types.Uint64, types.Uint, types.Uintptr:
		return IntTy{64, false}, true
	}
	return IntTy{}, false
}

func isFloat(t types.Type) bool {
	b, ok := t.Underlying().(*types.Basic)
	return ok && (b.Kind() == types.Float64 || b.Kind() == types.Float32 || b.Kind() == types.UntypedFloat)
}
func isBool(t types.Type) bool {
	b, ok := t.Underlying().(*types.Basic)
	return ok && (b.Kind() == types.Bool || b.Kind() == types.UntypedBool)
}
func isString(t types.Type) bool {
	b, ok := t.Underlying().(*types.Basic)
	return ok && (b.Kind() == types.String || b.Kind() == types.UntypedString)
}

func (e *Engine) newCell(v Value) *Cell {
	e.cellN++
	c := &Cell{V: v, ID: e.cellN}
	if e.trackCells {
		e.allCells = append(e.allCells, c)
	}
	return c
}

func (e *Engine) zero(t types.Type) Value {
	switch u := t.Underlying().(type) {
	case *types.Basic:
		if it, ok := intTyOf(t); ok {
			return e.tb.BVConst(0, it.W)
		}
		if isBool(t) {
			return e.tb.Bool(false)
		}
		if isFloat(t) {
			return e.tb.RealConstF(0)
		}
		if isString(t) {
			return &StrVal{}
		}
		if u.Kind() == types.UnsafePointer {
			return PtrVal{}
		}
		if u.Kind() == types.UntypedNil {
			return nil
		}
		panic(engineErr("zero of basic type %s", t))
	case *types.Pointer:
		return PtrVal{}
	case *types.Slice:
		return SliceVal{}
	case *types.Map:
		return (*MapVal)(nil)
	case *types.Chan:
		return (*ChanVal)(nil)
	case *types.Signature:
		return (*FuncVal)(nil)
	case *types.Interface:
		return IfaceVal{}
	case *types.Struct:
		s := &StructVal{F: make([]*Cell, u.NumFields())}
		for i := range s.F {
			s.F[i] = e.newCell(e.zero(u.Field(i).Type()))
		}
		return s
	case *types.Array:
		a := &ArrayVal{E: make([]*Cell, int(u.Len()))}
		for i := range a.E {
			a.E[i] = e.newCell(e.zero(u.Elem()))
		}
		return a
	case *types.Tuple:
		tv := make(TupleVal, u.Len())
		for i := range tv {
			tv[i] = e.zero(u.At(i).Type())
		}
		return tv
	}
	panic(engineErr("zero of type %s (%T)", t, t.Underlying()))
}

// copyVal deep-copies aggregates (value semantics).
func (e *Engine) copyVal(v Value) Value {
	switch x := v.(type) {
	case *StructVal:
		n := &StructVal{F: make([]*Cell, len(x.F))}
		for i, c := range x.F {
			n.F[i] = e.newCell(e.copyVal(c.V))
		}
		return n
	case *ArrayVal:
		n := &ArrayVal{E: make([]*Cell, len(x.E))}
		for i, c := range x.E {
			n.E[i] = e.newCell(e.copyVal(c.V))
		}
		return n
	case TupleVal:
		n := make(TupleVal, len(x))
		for i := range x {
			n[i] = e.copyVal(x[i])
		}
		return n
	}
	return v
}

// storeInto assigns v to the cell, keeping the identity of sub-cells of aggregates.
func (e *Engine) storeInto(c *Cell, v Value) {
	switch x := v.(type) {
	case *StructVal:
		dst, ok := c.V.(*StructVal)
		if !ok || len(dst.F) != len(x.F) {
			c.V = e.copyVal(v)
			return
		}
		for i := range x.F {
			e.storeInto(dst.F[i], x.F[i].V)
		}
		return
	case *ArrayVal:
		dst, ok := c.V.(*ArrayVal)
		if !ok || len(dst.E) != len(x.E) {
			c.V = e.copyVal(v)
			return
		}
		for i := range x.E {
			e.storeInto(dst.E[i], x.E[i].V)
		}
		return
	}
	c.V = v
}

func (e *Engine) strConst(s string) *StrVal {
	r := &StrVal{B: make([]*Term, len(s))}
	for i := 0; i < len(s); i++ {
		r.B[i] = e.tb.BVConst(uint64(s[i]), 8)
	}
	return r
}

func (s *StrVal) Concrete() (string, bool) {
	var sb strings.Builder
	for _, b := range s.B {
		if !b.IsConst() {
			return "", false
		}
		sb.WriteByte(byte(b.U))
	}
	return sb.String(), true
}

func (e *Engine) strEq(a, b *StrVal) *Term {
	if len(a.B) != len(b.B) {
		return e.tb.Bool(false)
	}
	var cs []*Term
	for i := range a.B {
		cs = append(cs, e.tb.Eq(a.B[i], b.B[i]))
	}
	return e.tb.And(cs...)
}

// equal implements Go == on two values of static type t.
func (e *Engine) equal(a, b Value) *Term {
	switch x := a.(type) {
	case *Term:
		y, ok := b.(*Term)
		if !ok {
			panic(engineErr("equal: term vs %T", b))
		}
		return e.tb.Eq(x, y)
	case *StrVal:
		return e.strEq(x, b.(*StrVal))
	case PtrVal:
		return e.tb.Bool(x.C == b.(PtrVal).C)
	case *MapVal:
		return e.tb.Bool(x == b.(*MapVal))
	case *ChanVal:
		return e.tb.Bool(x == b.(*ChanVal))
	case *FuncVal:
		y := b.(*FuncVal)
		if x == nil || y == nil {
			return e.tb.Bool(x == y)
		}
		panic(progPanic{"comparing uncomparable type func"})
	case SliceVal:
		y := b.(SliceVal)
		if x.Arr == nil || y.Arr == nil {
			return e.tb.Bool(x.Arr == nil && y.Arr == nil)
		}
		panic(progPanic{"comparing uncomparable type slice"})
	case IfaceVal:
		y, ok := b.(IfaceVal)
		if !ok {
			panic(engineErr("equal: iface vs %T", b))
		}
		if x.T == nil || y.T == nil {
			return e.tb.Bool(x.T == nil && y.T == nil)
		}
		if !types.Identical(x.T, y.T) {
			return e.tb.Bool(false)
		}
		if !types.Comparable(x.T) {
			panic(progPanic{"runtime error: comparing uncomparable type " + x.T.String()})
		}
		return e.equal(x.V, y.V)
	case *StructVal:
		y := b.(*StructVal)
		var cs []*Term
		for i := range x.F {
			cs = append(cs, e.equal(x.F[i].V, y.F[i].V))
		}
		return e.tb.And(cs...)
	case *ArrayVal:
		y := b.(*ArrayVal)
		var cs []*Term
		for i := range x.E {
			cs = append(cs, e.equal(x.E[i].V, y.E[i].V))
		}
		return e.tb.And(cs...)
	case nil:
		return e.tb.Bool(b == nil)
	}
	panic(engineErr("equal on %T", a))
}

func (e *Engine) describe(v Value) string {
	switch x := v.(type) {
	case *Term:
		return Pretty(x, 4)
	case *StrVal:
		if s, ok := x.Concrete(); ok {
			return fmt.Sprintf("%q", s)
		}
		parts := []string{}
		for _, b := range x.B {
			parts = append(parts, Pretty(b, 2))
		}
		return "str[" + strings.Join(parts, ",") + "]"
	case PtrVal:
		if x.C == nil {
			return "nil"
		}
		return fmt.Sprintf("&cell%d", x.C.ID)
	case IfaceVal:
		if x.T == nil {
			return "nil"
		}
		return fmt.Sprintf("%s(%s)", x.T, e.describe(x.V))
	case *StructVal:
		parts := []string{}
		for _, c := range x.F {
			parts = append(parts, e.describe(c.V))
		}
		return "{" + strings.Join(parts, " ") + "}"
	case SliceVal:
		if x.Arr == nil {
			return "[]nil"
		}
		parts := []string{}
		for i := 0; i < x.Len; i++ {
			parts = append(parts, e.describe(x.Arr.E[x.Off+i].V))
		}
		return "[" + strings.Join(parts, " ") + "]"
	case nil:
		return "nil"
	}
	return fmt.Sprintf("%T", v)
}
