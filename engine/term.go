package main

import (
	"fmt"
	"math"
	"math/big"
	"sort"
	"strings"
)

// ---------------------------------------------------------------------------
// SMT terms with hash-consing and constant folding.
// ---------------------------------------------------------------------------

type SortKind int

const (
	SBool SortKind = iota
	SBV
	SInt
	SReal
)

type Sort struct {
	K SortKind
	W int
}

func (s Sort) String() string {
	switch s.K {
	case SBool:
		return "Bool"
	case SBV:
		return fmt.Sprintf("(_ BitVec %d)", s.W)
	case SInt:
		return "Int"
	case SReal:
		return "Real"
	}
	return "?"
}

var (
	BoolSort = Sort{K: SBool}
	IntSort  = Sort{K: SInt}
	RealSort = Sort{K: SReal}
)

func BV(w int) Sort { return Sort{K: SBV, W: w} }

type Term struct {
	ID   int
	Op   string // "const", "sym", or SMT operator / "app:<fun>"
	Args []*Term
	Sort Sort
	B    bool
	U    uint64   // BV const, masked
	I    *big.Int // Int const
	R    *big.Rat // Real const
	F    float64  // for Real consts that came from a float64 (exact), valid if IsF
	IsF  bool
	Name string
}

func (t *Term) IsConst() bool { return t.Op == "const" }

type TermBuilder struct {
	table map[string]*Term
	next  int
	// declared function symbols: name -> signature string
	Funs map[string]string
	// side constraints attached to fresh symbols (definitional), collected by engine
}

func NewTermBuilder() *TermBuilder {
	return &TermBuilder{table: map[string]*Term{}, Funs: map[string]string{}}
}

func (tb *TermBuilder) intern(t *Term) *Term {
	var sb strings.Builder
	sb.WriteString(t.Op)
	sb.WriteByte('|')
	sb.WriteString(t.Sort.String())
	sb.WriteByte('|')
	switch t.Op {
	case "const":
		switch t.Sort.K {
		case SBool:
			fmt.Fprintf(&sb, "%v", t.B)
		case SBV:
			fmt.Fprintf(&sb, "%d", t.U)
		case SInt:
			sb.WriteString(t.I.String())
		case SReal:
			sb.WriteString(t.R.String())
		}
	case "sym":
		sb.WriteString(t.Name)
	default:
		for _, a := range t.Args {
			fmt.Fprintf(&sb, "%d,", a.ID)
		}
	}
	k := sb.String()
	if e, ok := tb.table[k]; ok {
		return e
	}
	tb.next++
	t.ID = tb.next
	tb.table[k] = t
	return t
}

func mask(w int) uint64 {
	if w >= 64 {
		return ^uint64(0)
	}
	return (uint64(1) << uint(w)) - 1
}

func sext(u uint64, w int) int64 {
	if w >= 64 {
		return int64(u)
	}
	sh := uint(64 - w)
	return int64(u<<sh) >> sh
}

func (tb *TermBuilder) Bool(b bool) *Term {
	return tb.intern(&Term{Op: "const", Sort: BoolSort, B: b})
}
func (tb *TermBuilder) BVConst(u uint64, w int) *Term {
	return tb.intern(&Term{Op: "const", Sort: BV(w), U: u & mask(w)})
}
func (tb *TermBuilder) IntConst(i *big.Int) *Term {
	return tb.intern(&Term{Op: "const", Sort: IntSort, I: new(big.Int).Set(i)})
}
func (tb *TermBuilder) IntConst64(i int64) *Term { return tb.IntConst(big.NewInt(i)) }
func (tb *TermBuilder) RealConstF(f float64) *Term {
	if math.IsNaN(f) || math.IsInf(f, 0) {
		panic(engineErr("NaN/Inf float constant is outside the real-number float model"))
	}
	r := new(big.Rat)
	r.SetFloat64(f)
	return tb.intern(&Term{Op: "const", Sort: RealSort, R: r, F: f, IsF: true})
}
func (tb *TermBuilder) RealConstR(r *big.Rat) *Term {
	f, exact := r.Float64()
	return tb.intern(&Term{Op: "const", Sort: RealSort, R: new(big.Rat).Set(r), F: f, IsF: exact})
}
func (tb *TermBuilder) Sym(name string, s Sort) *Term {
	return tb.intern(&Term{Op: "sym", Name: name, Sort: s})
}

func (tb *TermBuilder) mk(op string, s Sort, args ...*Term) *Term {
	return tb.intern(&Term{Op: op, Sort: s, Args: args})
}

// App applies an uninterpreted function.
func (tb *TermBuilder) App(fun string, res Sort, args ...*Term) *Term {
	sig := "("
	for i, a := range args {
		if i > 0 {
			sig += " "
		}
		sig += a.Sort.String()
	}
	sig += ") " + res.String()
	if old, ok := tb.Funs[fun]; ok && old != sig {
		panic(engineErr("uninterpreted function %s used with two signatures", fun))
	}
	tb.Funs[fun] = sig
	if len(args) == 0 {
		return tb.Sym(fun+"!0", res) // nullary: plain symbol
	}
	return tb.mk("app:"+fun, res, args...)
}

// ---- boolean ----

func (tb *TermBuilder) Not(a *Term) *Term {
	if a.IsConst() {
		return tb.Bool(!a.B)
	}
	if a.Op == "not" {
		return a.Args[0]
	}
	return tb.mk("not", BoolSort, a)
}
func (tb *TermBuilder) And(as ...*Term) *Term {
	var out []*Term
	seen := map[int]bool{}
	for _, a := range as {
		if a.IsConst() {
			if !a.B {
				return tb.Bool(false)
			}
			continue
		}
		if a.Op == "and" {
			for _, x := range a.Args {
				if !seen[x.ID] {
					seen[x.ID] = true
					out = append(out, x)
				}
			}
			continue
		}
		if !seen[a.ID] {
			seen[a.ID] = true
			out = append(out, a)
		}
	}
	for _, a := range out {
		if a.Op == "not" && seen[a.Args[0].ID] {
			return tb.Bool(false)
		}
	}
	if len(out) == 0 {
		return tb.Bool(true)
	}
	if len(out) == 1 {
		return out[0]
	}
	return tb.mk("and", BoolSort, out...)
}
func (tb *TermBuilder) Or(as ...*Term) *Term {
	var out []*Term
	seen := map[int]bool{}
	for _, a := range as {
		if a.IsConst() {
			if a.B {
				return tb.Bool(true)
			}
			continue
		}
		if a.Op == "or" {
			for _, x := range a.Args {
				if !seen[x.ID] {
					seen[x.ID] = true
					out = append(out, x)
				}
			}
			continue
		}
		if !seen[a.ID] {
			seen[a.ID] = true
			out = append(out, a)
		}
	}
	for _, a := range out {
		if a.Op == "not" && seen[a.Args[0].ID] {
			return tb.Bool(true)
		}
	}
	if len(out) == 0 {
		return tb.Bool(false)
	}
	if len(out) == 1 {
		return out[0]
	}
	return tb.mk("or", BoolSort, out...)
}
func (tb *TermBuilder) Implies(a, b *Term) *Term { return tb.Or(tb.Not(a), b) }

func (tb *TermBuilder) Ite(c, a, b *Term) *Term {
	if c.IsConst() {
		if c.B {
			return a
		}
		return b
	}
	if a == b {
		return a
	}
	a, b = tb.unify(a, b, true)
	if a.Sort.K == SBool {
		if a.IsConst() && b.IsConst() {
			if a.B {
				return c
			}
			return tb.Not(c)
		}
	}
	return tb.mk("ite", a.Sort, c, a, b)
}

// unify coerces a BV constant to Int/Real when the other operand is Int/Real.
func (tb *TermBuilder) unify(a, b *Term, signed bool) (*Term, *Term) {
	if a.Sort == b.Sort {
		return a, b
	}
	conv := func(c *Term, to Sort) *Term {
		if !c.IsConst() || c.Sort.K != SBV {
			panic(engineErr("sort mismatch %s vs %s (mixing bit-vector and integer-mode symbols)", c.Sort, to))
		}
		var v *big.Int
		if signed {
			v = big.NewInt(sext(c.U, c.Sort.W))
		} else {
			v = new(big.Int).SetUint64(c.U)
		}
		if to.K == SInt {
			return tb.IntConst(v)
		}
		if to.K == SReal {
			return tb.RealConstR(new(big.Rat).SetInt(v))
		}
		panic(engineErr("cannot coerce constant to %s", to))
	}
	if a.Sort.K == SBV && (b.Sort.K == SInt || b.Sort.K == SReal) {
		return conv(a, b.Sort), b
	}
	if b.Sort.K == SBV && (a.Sort.K == SInt || a.Sort.K == SReal) {
		return a, conv(b, a.Sort)
	}
	if a.Sort.K == SInt && b.Sort.K == SReal && a.IsConst() {
		return tb.RealConstR(new(big.Rat).SetInt(a.I)), b
	}
	if b.Sort.K == SInt && a.Sort.K == SReal && b.IsConst() {
		return a, tb.RealConstR(new(big.Rat).SetInt(b.I))
	}
	panic(engineErr("sort mismatch %s vs %s", a.Sort, b.Sort))
}

func (tb *TermBuilder) Eq(a, b *Term) *Term {
	if a == b {
		return tb.Bool(true)
	}
	a, b = tb.unify(a, b, true)
	if a == b {
		return tb.Bool(true)
	}
	if a.IsConst() && b.IsConst() {
		switch a.Sort.K {
		case SBool:
			return tb.Bool(a.B == b.B)
		case SBV:
			return tb.Bool(a.U == b.U)
		case SInt:
			return tb.Bool(a.I.Cmp(b.I) == 0)
		case SReal:
			return tb.Bool(a.R.Cmp(b.R) == 0)
		}
	}
	if a.Sort.K == SBool {
		if a.IsConst() {
			if a.B {
				return b
			}
			return tb.Not(b)
		}
		if b.IsConst() {
			if b.B {
				return a
			}
			return tb.Not(a)
		}
	}
	if a.ID > b.ID {
		a, b = b, a
	}
	return tb.mk("=", BoolSort, a, b)
}

// ---- integer arithmetic (sort decided by operands) ----

type IntTy struct {
	W      int
	Signed bool
}

func (tb *TermBuilder) constInt(t IntTy, a *Term) (*big.Int, bool) {
	if !a.IsConst() {
		return nil, false
	}
	switch a.Sort.K {
	case SBV:
		if t.Signed {
			return big.NewInt(sext(a.U, a.Sort.W)), true
		}
		return new(big.Int).SetUint64(a.U), true
	case SInt:
		return a.I, true
	}
	return nil, false
}

func wrapBig(v *big.Int, t IntTy) uint64 {
	m := new(big.Int).Lsh(big.NewInt(1), uint(t.W))
	r := new(big.Int).Mod(v, m) // non-negative
	return r.Uint64()
}

// IntBin performs a Go integer binary operation of type t.
// ovf (may be nil) receives, in Int mode, the in-range side condition of the result.
func (tb *TermBuilder) IntBin(op string, t IntTy, a, b *Term, ovf func(*Term)) *Term {
	a, b = tb.unify(a, b, t.Signed)
	ca, oka := tb.constInt(t, a)
	cb, okb := tb.constInt(t, b)
	if oka && okb && a.Sort.K == SBV {
		var r big.Int
		switch op {
		case "+":
			r.Add(ca, cb)
		case "-":
			r.Sub(ca, cb)
		case "*":
			r.Mul(ca, cb)
		case "/":
			if cb.Sign() == 0 {
				panic(progPanic{"integer divide by zero"})
			}
			r.Quo(ca, cb)
		case "%":
			if cb.Sign() == 0 {
				panic(progPanic{"integer divide by zero"})
			}
			r.Rem(ca, cb)
		case "&":
			return tb.BVConst(a.U&b.U, t.W)
		case "|":
			return tb.BVConst(a.U|b.U, t.W)
		case "^":
			return tb.BVConst(a.U^b.U, t.W)
		case "&^":
			return tb.BVConst(a.U&^b.U, t.W)
		default:
			panic(engineErr("IntBin op %s", op))
		}
		return tb.BVConst(wrapBig(&r, t), t.W)
	}
	if a.Sort.K == SBV {
		switch op {
		case "+":
			if okb && cb.Sign() == 0 {
				return a
			}
			if oka && ca.Sign() == 0 {
				return b
			}
			// peephole: (x sdiv c)*c + (x srem c)  ==> x
			if x := tb.divRemRecombine(a, b); x != nil {
				return x
			}
			if x := tb.divRemRecombine(b, a); x != nil {
				return x
			}
			return tb.mk("bvadd", a.Sort, a, b)
		case "-":
			if okb && cb.Sign() == 0 {
				return a
			}
			if a == b {
				return tb.BVConst(0, t.W)
			}
			return tb.mk("bvsub", a.Sort, a, b)
		case "*":
			if okb && cb.IsInt64() && cb.Int64() == 1 {
				return a
			}
			if oka && ca.IsInt64() && ca.Int64() == 1 {
				return b
			}
			if (okb && cb.Sign() == 0) || (oka && ca.Sign() == 0) {
				return tb.BVConst(0, t.W)
			}
			return tb.mk("bvmul", a.Sort, a, b)
		case "/":
			if t.Signed {
				return tb.mk("bvsdiv", a.Sort, a, b)
			}
			return tb.mk("bvudiv", a.Sort, a, b)
		case "%":
			if t.Signed {
				return tb.mk("bvsrem", a.Sort, a, b)
			}
			// x % 2^k => mask
			if okb && cb.IsUint64() && cb.Uint64() != 0 && cb.Uint64()&(cb.Uint64()-1) == 0 {
				return tb.mk("bvand", a.Sort, a, tb.BVConst(cb.Uint64()-1, t.W))
			}
			return tb.mk("bvurem", a.Sort, a, b)
		case "&":
			return tb.mk("bvand", a.Sort, a, b)
		case "|":
			return tb.mk("bvor", a.Sort, a, b)
		case "^":
			return tb.mk("bvxor", a.Sort, a, b)
		case "&^":
			return tb.mk("bvand", a.Sort, a, tb.mk("bvnot", a.Sort, b))
		}
		panic(engineErr("IntBin op %s", op))
	}
	if a.Sort.K == SReal {
		// Real mode: Go integers relaxed to reals (no integrality); + - * only
		var r *Term
		switch op {
		case "+", "-", "*":
			r = tb.RealExact(op, a, b)
		default:
			panic(engineErr("operation %s on an integer in real mode", op))
		}
		if ovf != nil {
			ovf(tb.InRange(r, t))
		}
		return r
	}
	if a.Sort.K != SInt {
		panic(engineErr("IntBin on sort %s", a.Sort))
	}
	// Int mode: mathematical integers; result must be in range (side condition).
	var r *Term
	if oka && okb {
		var x big.Int
		switch op {
		case "+":
			x.Add(ca, cb)
		case "-":
			x.Sub(ca, cb)
		case "*":
			x.Mul(ca, cb)
		case "/":
			if cb.Sign() == 0 {
				panic(progPanic{"integer divide by zero"})
			}
			x.Quo(ca, cb)
		case "%":
			if cb.Sign() == 0 {
				panic(progPanic{"integer divide by zero"})
			}
			x.Rem(ca, cb)
		default:
			panic(engineErr("bit operation %s in integer mode", op))
		}
		r = tb.IntConst(&x)
	} else {
		switch op {
		case "+":
			if okb && cb.Sign() == 0 {
				return a
			}
			if oka && ca.Sign() == 0 {
				return b
			}
			r = tb.mk("+", IntSort, a, b)
		case "-":
			if okb && cb.Sign() == 0 {
				return a
			}
			r = tb.mk("-", IntSort, a, b)
		case "*":
			r = tb.mk("*", IntSort, a, b)
		case "/", "%":
			// Go truncates toward zero; SMT-LIB div/mod are Euclidean.
			if !okb {
				panic(engineErr("integer-mode division by a symbolic divisor"))
			}
			if cb.Sign() <= 0 {
				panic(engineErr("integer-mode division by non-positive constant"))
			}
			nz := tb.mk(">=", BoolSort, a, tb.IntConst64(0))
			na := tb.mk("-", IntSort, tb.IntConst64(0), a)
			if op == "/" {
				r = tb.Ite(nz, tb.mk("div", IntSort, a, b), tb.mk("-", IntSort, tb.IntConst64(0), tb.mk("div", IntSort, na, b)))
			} else {
				r = tb.Ite(nz, tb.mk("mod", IntSort, a, b), tb.mk("-", IntSort, tb.IntConst64(0), tb.mk("mod", IntSort, na, b)))
			}
		default:
			panic(engineErr("bit operation %s in integer mode", op))
		}
	}
	if ovf != nil {
		ovf(tb.InRange(r, t))
	}
	return r
}

func (tb *TermBuilder) divRemRecombine(a, b *Term) *Term {
	// a = (bvmul (bvsdiv x c) c) ; b = (bvsrem x c)
	if a.Op != "bvmul" || b.Op != "bvsrem" {
		return nil
	}
	x, c := b.Args[0], b.Args[1]
	if !c.IsConst() {
		return nil
	}
	var d *Term
	if a.Args[1] == c {
		d = a.Args[0]
	} else if a.Args[0] == c {
		d = a.Args[1]
	} else {
		return nil
	}
	if d.Op == "bvsdiv" && d.Args[0] == x && d.Args[1] == c {
		return x
	}
	return nil
}

func (tb *TermBuilder) InRange(r *Term, t IntTy) *Term {
	var lo, hi big.Int
	if t.Signed {
		lo.Lsh(big.NewInt(1), uint(t.W-1))
		lo.Neg(&lo)
		hi.Lsh(big.NewInt(1), uint(t.W-1))
		hi.Sub(&hi, big.NewInt(1))
	} else {
		hi.Lsh(big.NewInt(1), uint(t.W))
		hi.Sub(&hi, big.NewInt(1))
	}
	if r.Sort.K == SReal {
		return tb.And(tb.Cmp("<=", IntTy{}, tb.RealConstR(new(big.Rat).SetInt(&lo)), r), tb.Cmp("<=", IntTy{}, r, tb.RealConstR(new(big.Rat).SetInt(&hi))))
	}
	return tb.And(tb.Cmp("<=", IntTy{}, tb.IntConst(&lo), r), tb.Cmp("<=", IntTy{}, r, tb.IntConst(&hi)))
}

func (tb *TermBuilder) IntNeg(t IntTy, a *Term, ovf func(*Term)) *Term {
	return tb.IntBin("-", t, tb.BVConst(0, t.W), a, ovf)
}

func (tb *TermBuilder) IntNot(t IntTy, a *Term) *Term {
	if a.IsConst() && a.Sort.K == SBV {
		return tb.BVConst(^a.U, t.W)
	}
	if a.Sort.K != SBV {
		panic(engineErr("bitwise not in integer mode"))
	}
	return tb.mk("bvnot", a.Sort, a)
}

func (tb *TermBuilder) Shift(op string, t IntTy, a, n *Term) *Term {
	if !n.IsConst() {
		panic(engineErr("symbolic shift count"))
	}
	var cnt uint64
	if n.Sort.K == SBV {
		cnt = n.U
	} else {
		cnt = n.I.Uint64()
	}
	if a.IsConst() && a.Sort.K == SBV {
		switch op {
		case "<<":
			if cnt >= 64 {
				return tb.BVConst(0, t.W)
			}
			return tb.BVConst(a.U<<cnt, t.W)
		case ">>":
			if t.Signed {
				if cnt >= 64 {
					cnt = 63
				}
				return tb.BVConst(uint64(sext(a.U, t.W)>>cnt), t.W)
			}
			if cnt >= 64 {
				return tb.BVConst(0, t.W)
			}
			return tb.BVConst(a.U>>cnt, t.W)
		}
	}
	if a.Sort.K != SBV {
		panic(engineErr("shift in integer mode"))
	}
	c := tb.BVConst(cnt, t.W)
	switch op {
	case "<<":
		return tb.mk("bvshl", a.Sort, a, c)
	default:
		if t.Signed {
			return tb.mk("bvashr", a.Sort, a, c)
		}
		return tb.mk("bvlshr", a.Sort, a, c)
	}
}

// Cmp compares integers (or reals). op in < <= > >=.
func (tb *TermBuilder) Cmp(op string, t IntTy, a, b *Term) *Term {
	a, b = tb.unify(a, b, t.Signed)
	if a.IsConst() && b.IsConst() {
		var c int
		switch a.Sort.K {
		case SBV:
			if t.Signed {
				x, y := sext(a.U, a.Sort.W), sext(b.U, b.Sort.W)
				c = cmpI(x < y, x == y)
			} else {
				c = cmpI(a.U < b.U, a.U == b.U)
			}
		case SInt:
			c = a.I.Cmp(b.I)
		case SReal:
			c = a.R.Cmp(b.R)
		}
		switch op {
		case "<":
			return tb.Bool(c < 0)
		case "<=":
			return tb.Bool(c <= 0)
		case ">":
			return tb.Bool(c > 0)
		case ">=":
			return tb.Bool(c >= 0)
		}
	}
	if a == b {
		return tb.Bool(op == "<=" || op == ">=")
	}
	// normalise > and >= to < and <=
	switch op {
	case ">":
		op, a, b = "<", b, a
	case ">=":
		op, a, b = "<=", b, a
	}
	if a.Sort.K == SBV {
		m := map[string]string{"<": "bvult", "<=": "bvule"}
		if t.Signed {
			m = map[string]string{"<": "bvslt", "<=": "bvsle"}
		}
		return tb.mk(m[op], BoolSort, a, b)
	}
	return tb.mk(op, BoolSort, a, b)
}

func cmpI(lt, eq bool) int {
	if lt {
		return -1
	}
	if eq {
		return 0
	}
	return 1
}

// IntConv converts between Go integer types.
func (tb *TermBuilder) IntConv(from, to IntTy, a *Term, ovf func(*Term)) *Term {
	switch a.Sort.K {
	case SBV:
		if a.Sort.W != from.W {
			panic(engineErr("IntConv width mismatch %d vs %d", a.Sort.W, from.W))
		}
		if a.IsConst() {
			if from.Signed {
				return tb.BVConst(uint64(sext(a.U, from.W)), to.W)
			}
			return tb.BVConst(a.U, to.W)
		}
		if to.W == from.W {
			return a
		}
		if to.W < from.W {
			return tb.mk(fmt.Sprintf("(_ extract %d 0)", to.W-1), BV(to.W), a)
		}
		if from.Signed {
			return tb.mk(fmt.Sprintf("(_ sign_extend %d)", to.W-from.W), BV(to.W), a)
		}
		return tb.mk(fmt.Sprintf("(_ zero_extend %d)", to.W-from.W), BV(to.W), a)
	case SInt, SReal:
		if ovf != nil {
			ovf(tb.InRange(a, to))
		}
		return a
	}
	panic(engineErr("IntConv on sort %s", a.Sort))
}

// ---- reals (floats as reals with explicit rounding terms added by the interpreter) ----

func (tb *TermBuilder) RealBin(op string, a, b *Term) *Term {
	a, b = tb.unify(a, b, true)
	if a.IsConst() && b.IsConst() && a.IsF && b.IsF {
		var f float64
		switch op {
		case "+":
			f = a.F + b.F
		case "-":
			f = a.F - b.F
		case "*":
			f = a.F * b.F
		case "/":
			f = a.F / b.F
		}
		return tb.RealConstF(f)
	}
	return tb.mk(op, RealSort, a, b)
}

// exact real arithmetic on terms (no float rounding) used for oracles/side conditions
func (tb *TermBuilder) RealExact(op string, a, b *Term) *Term {
	a, b = tb.unify(a, b, true)
	if a.IsConst() && b.IsConst() {
		var r big.Rat
		switch op {
		case "+":
			r.Add(a.R, b.R)
		case "-":
			r.Sub(a.R, b.R)
		case "*":
			r.Mul(a.R, b.R)
		case "/":
			r.Quo(a.R, b.R)
		}
		return tb.RealConstR(&r)
	}
	return tb.mk(op, RealSort, a, b)
}

func (tb *TermBuilder) ToReal(a *Term) *Term {
	if a.Sort.K == SReal {
		return a
	}
	if a.Sort.K != SInt {
		panic(engineErr("to_real of %s", a.Sort))
	}
	if a.IsConst() {
		return tb.RealConstR(new(big.Rat).SetInt(a.I))
	}
	return tb.mk("to_real", RealSort, a)
}

// ---------------------------------------------------------------------------
// SMT-LIB printing
// ---------------------------------------------------------------------------

func constSMT(t *Term) string {
	switch t.Sort.K {
	case SBool:
		if t.B {
			return "true"
		}
		return "false"
	case SBV:
		if t.Sort.W%4 == 0 {
			return fmt.Sprintf("#x%0*x", t.Sort.W/4, t.U)
		}
		return fmt.Sprintf("#b%0*b", t.Sort.W, t.U)
	case SInt:
		if t.I.Sign() < 0 {
			return "(- " + new(big.Int).Neg(t.I).String() + ")"
		}
		return t.I.String()
	case SReal:
		n, d := t.R.Num(), t.R.Denom()
		s := ""
		if n.Sign() < 0 {
			s = "(- (/ " + new(big.Int).Neg(n).String() + ".0 " + d.String() + ".0))"
		} else {
			s = "(/ " + n.String() + ".0 " + d.String() + ".0)"
		}
		return s
	}
	return "?"
}

func symSMT(name string) string { return "|" + name + "|" }

// refName is how a term is referred to inside other terms once defined.
func refName(t *Term) string {
	switch t.Op {
	case "const":
		return constSMT(t)
	case "sym":
		return symSMT(t.Name)
	}
	return fmt.Sprintf("t%d", t.ID)
}

func defBody(t *Term) string {
	var sb strings.Builder
	sb.WriteByte('(')
	if strings.HasPrefix(t.Op, "app:") {
		sb.WriteString(symSMT(t.Op[4:]))
	} else {
		sb.WriteString(t.Op)
	}
	for _, a := range t.Args {
		sb.WriteByte(' ')
		sb.WriteString(refName(a))
	}
	sb.WriteByte(')')
	return sb.String()
}

// Pretty prints a term fully expanded (for reports), bounded depth.
func Pretty(t *Term, depth int) string {
	switch t.Op {
	case "const":
		if t.Sort.K == SBV {
			return fmt.Sprintf("%d", sext(t.U, t.Sort.W))
		}
		if t.Sort.K == SReal && t.IsF {
			return fmt.Sprintf("%g", t.F)
		}
		return constSMT(t)
	case "sym":
		return t.Name
	}
	if depth <= 0 {
		return "…"
	}
	parts := []string{t.Op}
	for _, a := range t.Args {
		parts = append(parts, Pretty(a, depth-1))
	}
	return "(" + strings.Join(parts, " ") + ")"
}

// Syms collects the symbols occurring in the terms.
func Syms(ts []*Term) []*Term {
	seen := map[int]bool{}
	var out []*Term
	var walk func(t *Term)
	walk = func(t *Term) {
		if seen[t.ID] {
			return
		}
		seen[t.ID] = true
		if t.Op == "sym" {
			out = append(out, t)
		}
		for _, a := range t.Args {
			walk(a)
		}
	}
	for _, t := range ts {
		walk(t)
	}
	sort.Slice(out, func(i, j int) bool { return out[i].Name < out[j].Name })
	return out
}

// Subst replaces symbols by terms (memoised per call).
func (tb *TermBuilder) Subst(t *Term, m map[*Term]*Term, memo map[*Term]*Term) *Term {
	if len(m) == 0 {
		return t
	}
	if r, ok := memo[t]; ok {
		return r
	}
	var r *Term
	switch t.Op {
	case "const":
		r = t
	case "sym":
		if x, ok := m[t]; ok {
			r = x
		} else {
			r = t
		}
	default:
		changed := false
		args := make([]*Term, len(t.Args))
		for i, a := range t.Args {
			args[i] = tb.Subst(a, m, memo)
			if args[i] != a {
				changed = true
			}
		}
		if !changed {
			r = t
		} else {
			switch t.Op {
			case "and":
				r = tb.And(args...)
			case "or":
				r = tb.Or(args...)
			case "not":
				r = tb.Not(args[0])
			case "=":
				r = tb.Eq(args[0], args[1])
			case "ite":
				r = tb.Ite(args[0], args[1], args[2])
			default:
				r = tb.mk(t.Op, t.Sort, args...)
			}
		}
	}
	memo[t] = r
	return r
}
