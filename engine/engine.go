package main

import (
	"fmt"
	"go/types"
	"math/big"
	"sort"
	"strings"

	"golang.org/x/tools/go/ssa"
)

type lockSt struct {
	w bool
	r int
}

type AssertRec struct {
	Label    string
	OK       int
	Violated int
	Unknown  int
}

type Violation struct {
	Harness string            `json:"harness"`
	Label   string            `json:"label"`
	Kind    string            `json:"kind"` // assert | panic | lock-leak
	Msg     string            `json:"msg,omitempty"`
	Model   map[string]string `json:"model"`
	Classes []string          `json:"classes"`         // classes true in this model
	Known   string            `json:"known,omitempty"` // known-finding id matched
	Notes   []string          `json:"notes,omitempty"`
	Path    string            `json:"path"`
	Choices []int             `json:"choices,omitempty"`
	Confirm string            `json:"confirm,omitempty"`
	Hashes  [][2]string       `json:"hashes,omitempty"` // key bytes (hex) -> value of the uninterpreted hash in the model
}

type pathRecord struct {
	End     string
	Msg     string
	Steps   int
	Notes   []string
	Reached []string
	Sample  map[string]string
}

type classRec struct {
	name string
	cond *Term
}

type Engine struct {
	prog    *ssa.Program
	pkg     *ssa.Package
	pkgPath string
	tb      *TermBuilder
	solver  *Solver
	mode    string // "bv" | "int"
	harness string

	// per path
	pc              []*Term
	prefix          []bool
	decisions       []bool
	forced          []bool // parallel to decisions: true if the other side was infeasible
	globals         map[*ssa.Global]*Cell
	sentinels       map[string]Value
	cellN           int
	mapN            int
	chanN           int
	fpN             int
	fpRound         int
	steps           int
	maxSteps        int
	depth           int
	symCount        map[string]int
	inputs          []*Term
	inputNames      map[string]bool
	classes         []classRec
	notes           []string
	reached         []string
	locks           map[*Cell]*lockSt
	syncMaps        map[*Cell]*MapVal
	pending         []goroutine
	goRuns          int
	rangeConds      []*Term
	skippedGo       map[string]int
	inexact         bool
	choices         []int
	mapOrder        func(m *MapVal, snap []*mapEntry) []*mapEntry
	gob             *gobState
	http            *httpModel
	unknownBranches int
	onceDone        map[*Cell]bool
	nextIsDeferCall bool
	janitors        []Value // receivers of the janitor goroutines the constructors wanted to start
	hashConcLens    map[int]bool
	hashSymLens     map[int]bool
	hashAlwaysUF    bool
	hashApps        []hashApp
	seqThreads      []*FuncVal
	seqFinally      *FuncVal
	trackCells      bool
	allCells        []*Cell
	allMaps         []*MapVal
	allChans        []*ChanVal
	fpExact         bool
	fpIdeal         int

	ev *eventCtx // event mode (L2), nil in sequential mode

	// across paths
	x             *explorer
	work          [][]bool
	paths         []pathRecord
	asserts       map[string]*AssertRec
	reachAll      map[string]int
	violations    []Violation
	known         []KnownFinding
	fnTouched     map[*ssa.Function]map[int]bool
	endCounts     map[string]int
	overflowPaths int
	maxPaths      int
	samples       int
	stubsUsed     map[string]int
}

type KnownFinding struct {
	ID       string `json:"id"`
	Property string `json:"property"`
	Harness  string `json:"harness"`
	Label    string `json:"label"`
	Class    string `json:"class"`
	What     string `json:"what"`
	Status   string `json:"status"` // "known" | "fixed"
	Commit   string `json:"commit,omitempty"`
}

func (e *Engine) touchFn(fn *ssa.Function) {
	if e.fnTouched[fn] == nil {
		e.fnTouched[fn] = map[int]bool{}
	}
}
func (e *Engine) touchBlock(b *ssa.BasicBlock) {
	m := e.fnTouched[b.Parent()]
	if m == nil {
		m = map[int]bool{}
		e.fnTouched[b.Parent()] = m
	}
	m[b.Index] = true
}

func (e *Engine) resetPath() {
	e.pc = nil
	e.decisions = nil
	e.forced = nil
	e.globals = map[*ssa.Global]*Cell{}
	e.sentinels = map[string]Value{}
	e.cellN, e.mapN, e.chanN, e.fpN, e.fpRound, e.steps, e.depth = 0, 0, 0, 0, 0, 0, 0
	e.symCount = map[string]int{}
	e.inputs = nil
	e.inputNames = map[string]bool{}
	e.classes = nil
	e.notes = nil
	e.reached = nil
	e.locks = map[*Cell]*lockSt{}
	e.syncMaps = map[*Cell]*MapVal{}
	e.pending = nil
	e.goRuns = 0
	e.rangeConds = nil
	e.inexact = false
	e.choices = nil
	e.mapOrder = nil
	e.gob = nil
	e.http = nil
	e.janitors = nil
	e.onceDone = nil
	e.hashConcLens = map[int]bool{}
	e.hashSymLens = map[int]bool{}
	e.hashAlwaysUF = false
	e.hashApps = nil
	e.fpExact = false
	e.allCells, e.allMaps, e.allChans = nil, nil, nil
	e.seqThreads, e.seqFinally = nil, nil
}

// assume adds a constraint to the path condition (no feasibility check).
func (e *Engine) assume(c *Term) {
	if c.IsConst() {
		if !c.B {
			panic(pathEnd{kind: "infeasible"})
		}
		return
	}
	e.pc = append(e.pc, c)
	e.evGuard(c)
}

const maxUnknownBranches = 4

func (e *Engine) feasible(c *Term) SatResult {
	return e.solver.Check(append(append([]*Term{}, e.pc...), c))
}

// branch decides a symbolic condition, forking when both outcomes are feasible.
func (e *Engine) branch(c *Term) bool {
	if c.IsConst() {
		return c.B
	}
	idx := len(e.decisions)
	if idx < len(e.prefix) {
		d := e.prefix[idx]
		e.decisions = append(e.decisions, d)
		e.forced = append(e.forced, true)
		e.evDecision(d)
		if d {
			e.pc = append(e.pc, c)
			e.evGuard(c)
		} else {
			e.pc = append(e.pc, e.tb.Not(c))
			e.evGuard(e.tb.Not(c))
		}
		return d
	}
	// syntactic shortcut: the condition (or its negation) is already a conjunct of the path condition
	nc := e.tb.Not(c)
	for _, p := range e.pc {
		if p == c {
			e.decisions = append(e.decisions, true)
			e.forced = append(e.forced, true)
			e.evDecision(true)
			return true
		}
		if p == nc {
			e.decisions = append(e.decisions, false)
			e.forced = append(e.forced, true)
			e.evDecision(false)
			return false
		}
	}
	rt := e.feasible(c)
	var rf SatResult
	if rt == ResUnsat {
		rf = ResSat // pc is satisfiable, so the negation must be
	} else {
		rf = e.feasible(e.tb.Not(c))
	}
	if rt == ResUnknown || rf == ResUnknown {
		e.inexact = true
		// every unknown costs a full solver timeout: a path condition the back end cannot decide
		// (e.g. a 64-bit remainder by a large constant) must not turn into hours of timeouts
		e.unknownBranches++
		if e.unknownBranches > maxUnknownBranches || e.unknownBranches*e.solver.TimeoutS > 100 {
			panic(engineErr("the solver answered unknown on %d branch conditions (last in %s): path feasibility cannot be decided with this encoding; result inconclusive", e.unknownBranches, c.Op))
		}
	}
	switch {
	case rt != ResUnsat && rf != ResUnsat:
		// real fork: take true now, queue false
		alt := append(append([]bool{}, e.decisions...), false)
		e.x.push(alt)
		e.decisions = append(e.decisions, true)
		e.forced = append(e.forced, false)
		e.pc = append(e.pc, c)
		e.evDecision(true)
		e.evGuard(c)
		return true
	case rt != ResUnsat:
		e.decisions = append(e.decisions, true)
		e.forced = append(e.forced, true)
		e.pc = append(e.pc, c)
		e.evDecision(true)
		e.evGuard(c)
		return true
	case rf != ResUnsat:
		e.decisions = append(e.decisions, false)
		e.forced = append(e.forced, true)
		e.pc = append(e.pc, e.tb.Not(c))
		e.evDecision(false)
		e.evGuard(e.tb.Not(c))
		return false
	}
	panic(pathEnd{kind: "infeasible"})
}

// someValue returns a value the term can take under the current path condition.
func (e *Engine) someValue(t *Term) (*big.Int, bool) {
	r := e.solver.Check(e.pc)
	if r != ResSat {
		if r == ResUnknown {
			panic(engineErr("solver returned unknown while concretising an index"))
		}
		return nil, false
	}
	vals := e.solver.Values([]*Term{t})
	for _, v := range vals {
		return parseSMTInt(v), true
	}
	return nil, false
}

func parseSMTInt(s string) *big.Int {
	s = strings.TrimSpace(s)
	if strings.HasPrefix(s, "#x") {
		v, _ := new(big.Int).SetString(s[2:], 16)
		return v
	}
	if strings.HasPrefix(s, "#b") {
		v, _ := new(big.Int).SetString(s[2:], 2)
		return v
	}
	if strings.HasPrefix(s, "(- ") {
		v := parseSMTInt(strings.TrimSuffix(s[3:], ")"))
		return v.Neg(v)
	}
	if strings.HasPrefix(s, "(_ bv") {
		f := strings.Fields(s[5:])
		v, _ := new(big.Int).SetString(f[0], 10)
		return v
	}
	v, ok := new(big.Int).SetString(s, 10)
	if !ok {
		panic(engineErr("cannot parse model value %q", s))
	}
	return v
}

func (e *Engine) freshName(name string) string {
	if e.ev != nil && e.ev.active && e.ev.cur != nil {
		name = fmt.Sprintf("%s@T%d%s", name, e.ev.cur.id, e.ev.cur.spawnKey)
	}
	k := e.symCount[name]
	e.symCount[name] = k + 1
	return fmt.Sprintf("%s#%d", name, k)
}

func (e *Engine) newInput(name string, s Sort) *Term {
	t := e.tb.Sym(e.freshName(name), s)
	e.inputs = append(e.inputs, t)
	return t
}

// newIntInput creates a symbolic Go integer of type it according to the numeric mode.
func (e *Engine) newIntInput(name string, it IntTy) *Term {
	if e.mode == "real" {
		t := e.newInput(name, RealSort)
		e.assume(e.tb.InRange(t, it))
		return t
	}
	if e.mode == "int" {
		t := e.newInput(name, IntSort)
		e.assume(e.tb.InRange(t, it))
		return t
	}
	return e.newInput(name, BV(it.W))
}

func (e *Engine) modelOf(extra ...*Term) (map[string]string, bool) {
	q := append(append([]*Term{}, e.pc...), extra...)
	r := e.solver.Check(q)
	if r != ResSat {
		return nil, false
	}
	return e.solver.Values(e.inputs), true
}

func (e *Engine) classesIn(extra []*Term) []string {
	// which registered classes hold in the current solver model (after a sat check)
	if len(e.classes) == 0 {
		return nil
	}
	var ts []*Term
	for _, c := range e.classes {
		ts = append(ts, c.cond)
	}
	var out []string
	for i, c := range e.classes {
		if c.cond.IsConst() {
			if c.cond.B {
				out = append(out, c.name)
			}
			continue
		}
		v := e.solver.Values([]*Term{ts[i]})
		for _, s := range v {
			if s == "true" {
				out = append(out, c.name)
			}
		}
	}
	return out
}

// report records a violation of (label) reachable under pc ∧ bad. Known findings are split
// off: classes listed as known for (harness,label) are excluded and the query is repeated, so
// that a different violation of the same assertion is still reported.
func (e *Engine) report(kind, label, msg string, bad *Term) {
	var knownConds []*Term
	for _, k := range e.known {
		if k.Status == "fixed" || k.Harness != e.harness || k.Label != label {
			continue
		}
		found := false
		for _, c := range e.classes {
			if c.name == k.Class {
				found = true
				q := append(append([]*Term{}, e.pc...), bad, c.cond)
				if e.solver.Check(q) == ResSat {
					m := e.solver.Values(e.inputs)
					e.violations = append(e.violations, Violation{Harness: e.harness, Label: label, Kind: kind, Msg: msg, Hashes: e.hashValues(),
						Model: m, Classes: []string{c.name}, Known: k.ID, Notes: append([]string{}, e.notes...), Path: decString(e.decisions), Choices: append([]int{}, e.choices...)})
				}
				knownConds = append(knownConds, c.cond)
			}
		}
		_ = found
	}
	q := append(append([]*Term{}, e.pc...), bad)
	if len(knownConds) > 0 {
		q = append(q, e.tb.Not(e.tb.Or(knownConds...)))
	}
	r := e.solver.Check(q)
	if r == ResSat {
		m := e.solver.Values(e.inputs)
		cl := e.classesIn(nil)
		e.violations = append(e.violations, Violation{Harness: e.harness, Label: label, Kind: kind, Msg: msg, Hashes: e.hashValues(),
			Model: m, Classes: cl, Notes: append([]string{}, e.notes...), Path: decString(e.decisions), Choices: append([]int{}, e.choices...)})
	} else if r == ResUnknown {
		e.inexact = true
		e.rec(label).Unknown++
	}
}

func decString(d []bool) string {
	var sb strings.Builder
	for _, b := range d {
		if b {
			sb.WriteByte('1')
		} else {
			sb.WriteByte('0')
		}
	}
	return sb.String()
}

func (e *Engine) rec(label string) *AssertRec {
	r := e.asserts[label]
	if r == nil {
		r = &AssertRec{Label: label}
		e.asserts[label] = r
	}
	return r
}

func (e *Engine) doAssert(label string, c *Term) {
	rec := e.rec(label)
	if c.IsConst() && c.B {
		rec.OK++
		return
	}
	bad := e.tb.Not(c)
	r := e.feasible(bad)
	switch r {
	case ResUnsat:
		rec.OK++
		return
	case ResUnknown:
		rec.Unknown++
		e.inexact = true
		return
	}
	rec.Violated++
	e.report("assert", label, "", bad)
	// continue on the part of the path where the assertion holds
	if e.feasible(c) == ResUnsat {
		panic(pathEnd{kind: "stop", msg: "assertion " + label + " fails on the whole path"})
	}
	e.assume(c)
}

func (e *Engine) runPath(fn *ssa.Function, prefix []bool) {
	e.resetPath()
	e.prefix = prefix
	rec := pathRecord{}
	func() {
		defer func() {
			if r := recover(); r != nil {
				switch x := r.(type) {
				case pathEnd:
					rec.End, rec.Msg = x.kind, x.msg
				case progPanic:
					rec.End, rec.Msg = "panic", x.msg
				default:
					panic(r)
				}
			}
		}()
		e.runInit()
		e.callFunc(nil, &FuncVal{Fn: fn}, nil)
		e.runPending(nil)
		rec.End = "done"
	}()
	switch rec.End {
	case "panic":
		e.rec("auto:no-panic").Violated++
		e.report("panic", "auto:no-panic", rec.Msg, e.tb.Bool(true))
	case "unwind":
		panic(engineErr("unwinding failure: %s", rec.Msg))
	case "done":
		e.rec("auto:no-panic").OK++
		for c, l := range e.locks {
			if l.w || l.r > 0 {
				e.rec("auto:no-lock-leak").Violated++
				e.report("lock-leak", "auto:no-lock-leak", fmt.Sprintf("mutex in cell %d still held at harness end", c.ID), e.tb.Bool(true))
			}
		}
		if len(e.rangeConds) > 0 {
			// are executions outside the no-overflow assumption possible on this path? (informational)
			// pc already contains the range conditions, so test them against pc without them is not
			// available; we count paths that relied on at least one symbolic range condition.
			e.overflowPaths++
		}
	}
	rec.Steps = e.steps
	rec.Notes = e.notes
	rec.Reached = e.reached
	for _, l := range e.reached {
		e.reachAll[l]++
	}
	if rec.End == "done" && len(e.paths) < e.samples {
		if m, ok := e.modelOf(); ok {
			rec.Sample = m
		}
	}
	e.endCounts[rec.End]++
	e.paths = append(e.paths, rec)
}

// runInit executes the variable initialisers of the package under test (not of its imports).
func (e *Engine) runInit() {
	init := e.pkg.Func("init")
	if init == nil {
		return
	}
	e.callFunc(nil, &FuncVal{Fn: init}, nil)
}

func sortedKeys(m map[string]int) []string {
	var ks []string
	for k := range m {
		ks = append(ks, k)
	}
	sort.Strings(ks)
	return ks
}

var _ = types.Identical

type hashApp struct {
	bytes []*Term
	app   *Term
}

// hashValues evaluates, in the current solver model, every uninterpreted hash application of the path.
func (e *Engine) hashValues() [][2]string {
	var out [][2]string
	for _, h := range e.hashApps {
		ts := append(append([]*Term{}, h.bytes...), h.app)
		var syms []*Term
		for _, t := range ts {
			if !t.IsConst() {
				syms = append(syms, t)
			}
		}
		vals := e.solver.Values(syms)
		get := func(t *Term) uint64 {
			if t.IsConst() {
				return t.U
			}
			k := t.Name
			if t.Op != "sym" {
				k = refName(t)
			}
			return parseSMTInt(vals[k]).Uint64()
		}
		key := ""
		for _, b := range h.bytes {
			key += fmt.Sprintf("%02x", get(b))
		}
		out = append(out, [2]string{key, fmt.Sprintf("%d", get(h.app))})
	}
	return out
}
