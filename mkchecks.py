#!/usr/bin/env python3
# generates checks.json (per-property harness lists, bounds and claims) — edit here, then run.
import json
P={}
common=[
 "Go semantics as implemented by the symgo executor (maps, slices, strings, interfaces, closures, defers, channel close/receive; in sequential harnesses a go statement queues the goroutine, which runs to completion at a harness-chosen point)",
 "time.Now/time.Since read the harness clock (symbolic, non-decreasing); time.Time is modelled as a Unix nanosecond count with a distinct zero value",
 "package initialisers of imported packages are not executed; janitor/reportItemsCount goroutines are not started (harnesses call invokeCleanup themselves)",
 "a verdict holds within the stated bounds only; any solver 'unknown', engine error, unreached label or unreproducible model makes the check exit 2, never 0"]

P["C06"]=dict(level="other",
 explanation="Symbolic execution of the real WithTTL/TTL/WithSkipRead/detachedContext and Failover.Get/refreshStale/doBuild/ctxSync code from go/ssa against a recording backend stub; all TTL values (int64), both updateExisting modes, caller cell present/absent, one or two WithTTL calls by the builder, SkipRead, sync/background update and caller cancellation before/after return are SMT variables; each assertion is decided by z3 for all values on each path.",
 bounds="non-generic Failover; <=2 WithTTL calls by the builder; one Get; backend is a stub recording TTL(ctx)",
 outside="the waiter path, the generic FailoverOf variant (same context code), real backends' use of the TTL (C10)",
 assumptions=["backend is a harness stub that records the context it is called with"],
 quick=dict(harnesses=["verifH_C06_ColdMiss","verifH_C06_StaleRefresh","verifH_C06_SkipAfterFailure","verifH_C06_SkipAfterFailureOf"]),
 thorough=dict(harnesses=["verifH_C06_ColdMiss","verifH_C06_StaleRefresh","verifH_C06_SkipAfterFailure","verifH_C06_SkipAfterFailureOf"]))

P["C11"]=dict(level="other",
 explanation="(a) Inductive step: one (quick) or two (thorough) cleanup cycles of the real Trait.invokeCleanup and deleteExpired of ShardedMap, SyncMap and ShardedMapOf[int] executed symbolically from an arbitrary pre-state of <=3 entries built in-package (two of the keys share a shard; expiry E any int64 including 0, presence bits, DeleteExpiredAfter, clock, TimeToLive finite/Unlimited and expirationsSet symbolic); survival of each entry is compared with the reference predicate E==0 or E>=now-DeleteExpiredAfter by z3. The pre-state invariant 'UnlimitedTTL and expirationsSet==0 implies no dated entry' is assumed there and justified by (b). (b) Histories through the public API (verifH_C11_History_*): an entry is written, becomes dated by a per-call TTL, by ExpireAll, or by Dump/Restore into a second cache of the same configuration; after an arbitrary time one cleanup cycle runs on the very Trait the constructor started its janitor goroutine on (the executor records the receiver of the go statement); the entry must be gone exactly when it has been expired for longer than DeleteExpiredAfter.",
 bounds="(a) <=3 entries with concrete keys (real xxhash values, two in one shard), 1 or 2 cycles, no eviction limits configured, clock in [2^60,2^62] ns, DeleteExpiredAfter in (0,2^60]; (b) one entry, one dating operation, one cycle, per-call TTL in (-2^50,2^50), DeleteExpiredAfter in (0,2^50]",
 outside="the janitor's ticker loop itself (time.After); more than one dating operation per history",
 assumptions=["sync.Map is modelled as a linearizable map with snapshot Range","map iteration order fixed (insertion order)","encoding/gob modelled as a record stream (history with Restore)"],
 quick=dict(harnesses=["verifH_C11_ShardedMap_2cyc","verifH_C11_SyncMap_2cyc","verifH_C11_ShardedMapOf_2cyc","verifH_C11_History_ShardedMap","verifH_C11_History_SyncMap","verifH_C11_History_ShardedMapOf"], bounds="<=3 entries, two consecutive cleanup cycles with a later clock; histories of one dating operation"),
 thorough=dict(harnesses=["verifH_C11_ShardedMap","verifH_C11_SyncMap","verifH_C11_ShardedMapOf","verifH_C11_ShardedMap_2cyc","verifH_C11_SyncMap_2cyc","verifH_C11_ShardedMapOf_2cyc","verifH_C11_History_ShardedMap","verifH_C11_History_SyncMap","verifH_C11_History_ShardedMapOf"]))

c07h=["verifH_C07_ShardedMap_keyed","verifH_C07_ShardedMap_batch","verifH_C07_ShardedMap_ls","verifH_C07_SyncMap_keyed","verifH_C07_SyncMap_batch","verifH_C07_ShardedMapOf_keyed","verifH_C07_ShardedMapOf_batch","verifH_C07_ShardedMapOf_ls"]
P["C07"]=dict(level="other",
 explanation="Inductive step per operation kind instead of histories: an arbitrary valid pre-state of <=3 entries (symbolic key bytes, presence, value incl. nil, expiry E any int64) is built in-package, then one of Read/Write/Delete/ExpireAll/DeleteAll/Len/Walk/Load/Store with symbolic arguments (key from the alphabet or a 4th key, TTL option any int64, SkipRead, TimeToLive any non-zero incl. Unlimited, clock) runs on the real code of ShardedMap, SyncMap and ShardedMapOf[int]; result and complete post-state are compared with a reference map with per-entry expiry written from cache.go's interface comments. xxhash is an uninterpreted function (injective on the keys in play).",
 bounds="<=3 live entries + 1 further key; key lengths 0..2 bytes (all byte values); shard indices fixed to 5,5,9 (shards treated uniformly); jitter off; frozen clock in [2^60,2^62]; one operation from every valid state (covers histories of any length over <=3 live entries if the representation invariant 'one entry per hash slot, stored under H(K)' is what Write establishes, which the post-state check confirms)",
 outside="keys longer than 2 bytes, the real sync.Map (modelled), more than 3 simultaneous entries, LRU/LFU bookkeeping (C12), expiry arithmetic with jitter (C10)",
 assumptions=["xxhash.Sum64 is an uninterpreted function, assumed collision-free on the <=4 keys in play (collisions are C09)","sync.Map modelled as a linearizable map","map iteration order fixed"],
 quick=dict(harnesses=c07h, jobs=4, workers=4),
 thorough=dict(harnesses=c07h, jobs=4, workers=4))

P["C09"]=dict(level="other", technique="bounded symbolic execution (inductive step with an arbitrary hash function) + bounded model checking of the background-build composition",
 explanation="The C07 step harness with the injectivity assumption on the (uninterpreted, hence arbitrary) hash removed: any two of the keys in play may share their 64-bit hash. Read/Write/Delete on key k must never return, report as stale or delete the entry of a different key k' (the reference model only lets a Write take over the hash slot of a colliding key, i.e. a collision costs at most a miss), and after Write the caller's key buffer is overwritten with arbitrary bytes before the post-state is compared (no reference to the caller's slice is kept). Label indexing with a reused buffer is covered in the C15 harness; the Failover background-build buffer reuse is covered by verifH_C09_FailoverBuffer.",
 bounds="as C07, ShardedMap and ShardedMapOf[int] (SyncMap is keyed by the full string, see C07); Read/Write/Delete",
 outside="keys longer than 2 bytes; real 64-byte xxhash collisions are subsumed by the arbitrary hash function but not replayed with the real hash",
 assumptions=["xxhash.Sum64 is an uninterpreted function (any hash function)","representation invariant assumed for the pre-state: at most one entry per hash slot","Failover side: in the *_collide compositions (two concurrent Gets on two different keys, provenance oracle of C02) every hash the code under test computes - also of concrete keys - is an uninterpreted function value, so the two keys may collide","backends under concurrency: verifL_Collide_* run Read/Delete of key a against a Write of key b on the sharded backends with both keys in one shard and an uninterpreted hash (they may collide): the completed Write of b survives and a never sees b's value"],
 quick=dict(harnesses=["verifH_C09_ShardedMap_keyed","verifH_C09_ShardedMapOf_keyed","verifH_C09_ShardedMapOf_batch","verifH_C09_ShardedMap_ls"], jobs=4, workers=6,
   l2=["verifL_Failover_1_env:l2","verifL_FailoverOf_1_env:l2","verifL_Failover_2_collide:l2","verifL_FailoverOf_2_collide:l2","verifL_Collide_ShardedMap:l2","verifL_Collide_ShardedMapOf:l2"], l2_labels="stored under the key its Get|no key lock remains|a value returned with nil error|an error returned was produced|get returned|a completed Write of another key|Read never returns the value|collide:", l2_jobs=2, l2_par=16),
 thorough=dict(harnesses=["verifH_C09_ShardedMap_keyed","verifH_C09_ShardedMap_batch","verifH_C09_ShardedMap_ls","verifH_C09_ShardedMapOf_keyed","verifH_C09_ShardedMapOf_batch","verifH_C09_ShardedMapOf_ls"], jobs=3, workers=5,
   l2=["verifL_Failover_1_env:l2","verifL_FailoverOf_1_env:l2","verifL_Failover_2_env:l2","verifL_FailoverOf_2_env:l2","verifL_Failover_2_collide:l2","verifL_FailoverOf_2_collide:l2","verifL_Collide_ShardedMap:l2","verifL_Collide_ShardedMapOf:l2"], l2_labels="stored under the key its Get|no key lock remains|a value returned with nil error|an error returned was produced|get returned|a completed Write of another key|Read never returns the value|collide:", l2_jobs=2, l2_par=16, l2_timeout=600))

P["C15"]=dict(level="other",
 explanation="Real NewInvalidationIndex/AddCache/AddLabels/AddInvalidationLabels/InvalidateByLabels/invalidateByLabels(+deferred put-back)/cutKeys executed symbolically with scripted deleter stubs: the key/label incidence bits, repeated labelling, label argument order and multiplicity, an ErrNotFound answer, the position of a failing Delete call (in either of two deleters), map iteration order (2 permutations) are solver variables the code branches on; every index/slice bound and explicit panic is an obligation. After a nil return every labelled key was passed to every deleter of its name exactly once, no other key was, count = removed entries; on failure the deleter's error is returned and a retry after recovery removes every labelled key. A second harness uses the real ShardedMap/SyncMap/ShardedMapOf Delete as deleter.",
 bounds="<=4 keys x <=3 labels, <=2 label arguments, 1-2 deleters per name, 2 cache names, one failure + one retry",
 outside="concurrent AddLabels/AddCache/InvalidateByLabels (data-race part is C16)",
 assumptions=["deleters are harness stubs (first harness) — each call answers nil / ErrNotFound / error as scripted"],
 quick=dict(harnesses=["verifH_C15_k3l2","verifH_C15_k3l2d2","verifH_C15_RealShardedMap","verifH_C15_RealSyncMap","verifH_C15_RealShardedMapOf"], jobs=5, workers=4),
 thorough=dict(harnesses=["verifH_C15_k3l2","verifH_C15_k4l2","verifH_C15_k3l2d2","verifH_C15_k4l3","verifH_C15_RealShardedMap","verifH_C15_RealSyncMap","verifH_C15_RealShardedMapOf"], jobs=4, workers=4))

P["C03"]=dict(level="other",
 explanation="A lone Get of the real Failover (over the real ShardedMap and SyncMap) and FailoverOf[int] (over ShardedMapOf[int]) is executed symbolically, including valueFromError/freshEnough, refreshStale, recentlyFailed, ctxSync, doBuild, the backends' Read/Write/PrepareRead and the background goroutine (run to completion after Get returned). Entry presence, its expiry E, the clock, MaxStaleness (0 or any value in (0,2^59)), failure-cache hit, FailedUpdateTTL default/-1, SyncUpdate, FailHard and the builder outcome are SMT variables; value source, builder invocation count, whether the build ran before Get returned and the backend content after quiescence are compared with a decision table transcribed from README bullets 2-7 and the MaxStaleness/FailHard comments.",
 bounds="one key, one Get; E and clock in [0,2^62]; jitter off for the backend, failure cache jitter pinned to its midpoint (rand=0.5)",
 outside="concurrency (C01/C02/C04/C05); SyncRead (C02 sequential harness covers it)",
 assumptions=["a cached failure is served instead of a stale value (README: consecutive calls fail immediately with the same error)"],
 quick=dict(harnesses=["verifH_C03_ShardedMap","verifH_C03_SyncMap","verifH_C03_ShardedMapOf"], jobs=3, workers=4),
 thorough=dict(harnesses=["verifH_C03_ShardedMap","verifH_C03_SyncMap","verifH_C03_ShardedMapOf"], jobs=3, workers=4))

P["C13"]=dict(level="other",
 explanation="Real Dump/Restore/Walk of ShardedMap, SyncMap and ShardedMapOf[int] executed symbolically for every source/target pairing of the same family, with encoding/gob replaced by a record-stream stub that reproduces gob's two relevant behaviours (zero-valued fields are neither transmitted nor reset in the destination; a destination []byte with enough capacity is reused). <=3 entries with keys of differing lengths in all 6 orders, values nil / zero / non-zero (symbolic), expiry zero or any non-zero int64, presence bits symbolic. Both calls must report the number of entries, every key must read back with its own key bytes, value and expiry, Walk on the target must report exactly the source entries; thorough adds a second dump/restore hop (relay).",
 bounds="<=3 entries; keys 'aaaa','bb','c' (lengths 4,2,1) in every order; one hop (quick), two hops (thorough)",
 outside="the gob wire format, type registration failures, hundreds of entries",
 assumptions=["encoding/gob is a record-stream stub (see DESIGN.md section 3); each record travels as one handle byte through the real io.Writer/io.Reader chain"],
 quick=dict(harnesses=["verifH_C13_Sharded_Sharded","verifH_C13_Sharded_Sync","verifH_C13_Sync_Sharded","verifH_C13_Sync_Sync","verifH_C13_ShardedOf_relay"], jobs=5, workers=3),
 thorough=dict(harnesses=["verifH_C13_Sharded_Sharded","verifH_C13_Sharded_Sync_relay","verifH_C13_Sync_Sharded_relay","verifH_C13_Sync_Sync","verifH_C13_ShardedOf_relay"], jobs=5, workers=3))

P["C17"]=dict(level="model_checking",
 explanation="Sequential part: 3 (quick) or 4 (thorough) consecutive calls of the real (*Invalidator).Invalidate with a symbolic non-decreasing clock (every reading a fresh SMT variable), SkipInterval any int64 (0 means 15s), 0..3 callbacks (nil slice included). Acceptance of each call is compared with 'now - lastAccepted >= SkipInterval' (first call always accepted), accepted calls must run every callback once in registration order with the caller's context, rejected ones none and report ErrAlreadyInvalidated, no callbacks ErrNothingToInvalidate; accepted lastRun instants differ by at least SkipInterval. Concurrent part: 2 (quick) and 3 (thorough) concurrent Invalidate calls are explored thread by thread in event mode (every access to shared state of the real code - the embedded mutex, SkipInterval, lastRun - is an event; Lock..Unlock regions over consistently protected locations are fused by Lipton reduction) and composed with a symbolic scheduler (clock variables + read-from relation): for every schedule, callbacks of different accepted calls never interleave, accepted calls are spaced by SkipInterval, every accepted call ran every callback once in order, rejected ones none, no deadlock, no unlock of an unlocked mutex.",
 bounds="<=4 sequential calls, <=3 callbacks, clock in [2^60,2^62]",
 outside="more than 4 calls",
 assumptions=[],
 quick=dict(harnesses=["verifH_C17_Seq3","verifH_C17_Seq3_int:int"], jobs=2, workers=8, l2=["verifL_C17_2:l2"], l2_shards=2,
   bounds="3 sequential calls; 2 concurrent calls (all schedules), 2 callbacks"),
 thorough=dict(harnesses=["verifH_C17_Seq4","verifH_C17_Seq3_int:int"], jobs=2, workers=14, l2=["verifL_C17_2:l2","verifL_C17_3:l2"], l2_shards=2, l2_timeout=300,
   bounds="4 sequential calls; 2 and 3 concurrent calls (all schedules), 2 callbacks"))

P["C18"]=dict(level="other",
 explanation="Metric emission is local to the operation that causes it, so 'under any interleaving' reduces to: on every path of every operation the multiset of StatsTracker.Add calls equals what the operation's outcome prescribes. One backend operation (Read with/without SkipRead, Write, Delete, DeleteAll, ExpireAll, Len/Walk) from a symbolic pre-state of <=2 entries on all three backends, and one Failover/FailoverOf[int] Get over a scripted backend (entry absent/fresh/stale/too stale, SyncRead, SyncUpdate, FailHard, FailedUpdateTTL on/off, builder outcome, write fault) are executed symbolically with a recording tracker; totals per metric and name label are compared.",
 bounds="one operation per run; <=2 entries; eviction metrics are part of C12",
 outside="cache_items gauge (reportItemsCount goroutine not started), cache_changed (ObserveMutability uses reflect.DeepEqual)",
 assumptions=["accounting is per operation; concurrent interleavings do not change which Add calls an operation makes given its outcome"],
 quick=dict(harnesses=["verifH_C18_ShardedMap","verifH_C18_SyncMap","verifH_C18_ShardedMapOf","verifH_C18_Failover","verifH_C18_FailoverOf"], jobs=5, workers=3),
 thorough=dict(harnesses=["verifH_C18_ShardedMap","verifH_C18_SyncMap","verifH_C18_ShardedMapOf","verifH_C18_Failover","verifH_C18_FailoverOf"], jobs=5, workers=3))

P["C10"]=dict(level="other",
 explanation="Kernel: the real Trait.TTL (default/override/Unlimited precedence, jitter, expirationsSet bump) executed symbolically in integer mode (mathematical integers with no-overflow side conditions, reals for float64) for every context TTL and configured TimeToLive with |T|<2^60 ns, every rand in [0,1), jitter disabled / the default / {0.05,0.1,0.25,0.5,1} and (second harness) any jitter in (0,1]; result compared with the contract T'=T exactly without jitter, |T'-T| <= |T|*J/2 (+1 ns truncation, 1e-15 relative slack) and same sign with jitter, 0 for Unlimited without context TTL. Around it (bit-vector mode): Write on the three real backends with a stepping symbolic clock stores E in [t_before+T, t_after+T] (0 when T=0); a later Read returns the value iff now<=E, else ErrExpired whose ExpiredAt equals the instant Walk reports (tsTime/ts round trip through time.Unix).",
 bounds="|TTL| < 2^60 ns in the jitter kernel, |TTL| < 2^62 ns (expiry instants before 1970 included) in the Write/Read/Walk harnesses, clock in [2^60,2^62] ns; float64 operations on symbolic operands are idealised as exact real operations (with full rounding-error terms z3 answers unknown; int64->float64 is exact below 2^53 ns = 104 days, above that the real code itself deviates by up to 2^-52 relative, which the idealisation does not see)",
 outside="float rounding of multi-month TTLs; the sentinel collision now+T'==0; NaN/Inf jitter",
 assumptions=["float64 arithmetic idealised as real arithmetic in the kernel harness","rand.Float64 returns any real in [0,1)"],
 quick=dict(harnesses=["verifH_C10_TTLKernelIdeal:int","verifH_C10_TTLKernelIdealSymJ:int","verifH_C10_ShardedMap","verifH_C10_SyncMap","verifH_C10_ShardedMapOf"], jobs=5, workers=3, timeout=60),
 thorough=dict(harnesses=["verifH_C10_TTLKernelIdeal:int","verifH_C10_TTLKernelIdealSymJ:int","verifH_C10_ShardedMap","verifH_C10_SyncMap","verifH_C10_ShardedMapOf"], jobs=5, workers=3, timeout=120))

c12q=[k+"_"+a for k in ("verifH_C12_ShardedMap","verifH_C12_SyncMap","verifH_C12_ShardedMapOf") for a in ("trigger","amount","order","history")]
c12t=[k+"_"+a for k in ("verifH_C12_ShardedMap","verifH_C12_SyncMap","verifH_C12_ShardedMapOf") for a in ("trigger","amount","order4","history")]
P["C12"]=dict(level="other",
 explanation="One cleanup cycle of the real Trait.invokeCleanup (limit checks, fraction rescaling for count breaches), evictMostExpired/evictLeastCounter/evictLeast of the three backends and PrepareRead's LRU/LFU bookkeeping, executed symbolically in four factored harnesses per backend: trigger (CountSoftLimit 0..n+1, Heap/Sys soft limits and the runtime readings any uint64, EvictionNeeded nil/false/true: nothing is evicted unless a limit is exceeded or EvictionNeeded is true), amount (0..5 entries, EvictFraction default/{0.1,0.25,0.34,0.5,0.75,1}, count breach or EvictionNeeded: removed = trunc(n*fraction), count breach comes down to CountSoftLimit*(1-f) within one entry, cache_evict = removed), order (3 or 4 entries with symbolic metrics, all three strategies: every removed entry ranks <= every kept one; sort.Slice is any correct unstable sort over the real less closure), history (3 real reads of solver-chosen keys at symbolic increasing instants establish the LRU/LFU counters, then one entry is evicted: it is the least recently / least frequently served).",
 bounds="<=5 entries (order: <=4), one cycle, EvictFraction from a fixed list (concrete float64 arithmetic is then exact), deleteExpired disabled in these harnesses (C11)",
 outside="sizes far above the limit; arbitrary EvictFraction in (0,1]; ranking of never-expiring against dated entries under EvictMostExpired (not fixed by the property)",
 assumptions=["runtime.ReadMemStats readings are arbitrary uint64 values supplied by the harness","sort.Slice modelled as an arbitrary correct comparison sort"],
 quick=dict(harnesses=c12q, jobs=6, workers=2),
 thorough=dict(harnesses=c12t, jobs=6, workers=2))

FO_EXPL=("N concurrent Gets on one Failover / FailoverOf[int] instance are explored thread by thread in event mode from the go/ssa of the real Get (both closures incl. the background goroutine), valueFromError/freshEnough, waitForValue, refreshStale, doBuild, ctxSync: every access to the shared key-lock map, the per-key lock objects (val/err/channel), Failover.lock and the channel close/receive is an event; the per-thread automata are composed with a symbolic scheduler (clock variables + read-from relation, z3 with cvc5/z3-new as fallback). The backend is a harness stub with one register per key (each call one atomic step; entry absent / fresh / stale / too stale is a solver variable per key), the builder outcome per invocation is a solver variable, each Get picks its key (2 keys). One composition per combination of SyncRead x SyncUpdate x FailHard x MaxStaleness{0,set} (16 configurations per harness). ")
FO_BOUNDS="N=2 Gets (quick), N=3 Gets on one key (thorough); 2 keys; one Get per thread; clock frozen during the burst; FailedUpdateTTL=-1 (failure cache off) in the concurrent compositions; no injected backend faults except in the *_faults harnesses"
FO_OUT="more than 3 concurrent Gets; re-entrant callbacks; the real backends under Failover concurrently (their per-call atomicity is C08); the failure cache under concurrency"
FOQ=["verifL_Failover_2:l2","verifL_FailoverOf_2:l2"]
FOT=["verifL_Failover_2:l2","verifL_FailoverOf_2:l2","verifL_Failover_2_faults:l2","verifL_FailoverOf_2_faults:l2","verifL_Failover_3:l2","verifL_FailoverOf_3:l2"]
FOTECH="symbolic execution of each thread from go/ssa into an event automaton + bounded model checking of the composition with a symbolic scheduler (partial-order SMT encoding: clock variables + read-from relation)"
def fo(pid, what, labels, seq=None, extra_expl="", level="model_checking", quick_l2=FOQ, thorough_l2=FOT):
    P[pid]=dict(level=level, explanation=FO_EXPL+what+extra_expl, bounds=FO_BOUNDS, outside=FO_OUT,
      assumptions=["backend calls are atomic per call (harness stub with one register per key)","blocks are formed by Lipton reduction: Lock..Unlock regions over locations that every access seen performs under a common mutex are one atomic step; the lockset facts are recomputed on every run and are part of the exploration fixpoint"],
      technique=FOTECH,
      quick=dict(harnesses=seq or [], l2=quick_l2, l2_labels=labels, l2_timeout=120, l2_jobs=2, l2_par=16),
      thorough=dict(harnesses=seq or [], l2=thorough_l2, l2_labels=labels, l2_timeout=600, l2_jobs=2, l2_par=16))

fo("C01","Ghost counters updated atomically at builder entry/exit assert that no schedule puts two builder invocations for the same key in flight at once. Mutual exclusion rests on the integrity of the key-lock table (a lock is removed only by the Get that owns it, under the key it was taken for): the *_1_env compositions, in which the caller rewrites its key buffer right after Get returned, assert that no key lock remains at quiescence and that the built value went to the key Get was called with.",
   "at most one build per key in flight|no key lock remains|stored under the key its Get",
   quick_l2=FOQ+["verifL_Failover_1_env:l2","verifL_FailoverOf_1_env:l2"], thorough_l2=FOT+["verifL_Failover_1_env:l2","verifL_FailoverOf_1_env:l2","verifL_Failover_2_env:l2","verifL_FailoverOf_2_env:l2"])
fo("C02","When a Get returns, a provenance oracle (evaluated atomically with ghost state recording which builder invocations finished with which outcome) asserts: a nil-error value is the key's initially stored value or the token of a finished successful build for that key; an error is a finished failing build's error for that key (or an injected backend fault). The sequential harness additionally injects backend read/write faults at every call position of a lone Get on both APIs.",
   "a value returned with nil error|an error returned was produced|get returned", seq=["verifH_C02_SeqFaults","verifH_C02_SeqFaultsOf"],
   quick_l2=FOQ+["verifL_Failover_2_faults:l2","verifL_FailoverOf_2_faults:l2"],
   thorough_l2=FOT+["verifL_Failover_2_prior:l2","verifL_FailoverOf_2_prior:l2"],
   extra_expl=" Thorough tier: the *_prior compositions put one complete Get (any key, either builder outcome, with its background build) in front of the concurrent burst, so whatever a finished Get leaves behind in the Failover is part of the initial state (FailHard and MaxStaleness fixed there).")
fo("C04","Every schedule is checked for deadlock (a maximal execution in which a thread rests at a Lock or channel receive that the final state does not let through), for close of a closed channel and unlock of an unlocked mutex; at quiescence (all Gets and background builds finished) the key-lock map is empty and no build is in flight.",
   "no key lock remains|no build in flight|auto:no-deadlock|auto:close|quiescence|never observes the caller|stored under the key its Get",
   quick_l2=FOQ+["verifL_Failover_1_env:l2","verifL_FailoverOf_1_env:l2"], thorough_l2=FOT+["verifL_Failover_2_env:l2","verifL_FailoverOf_2_env:l2"],
   seq=["verifH_C04_Seq:int","verifH_C04_SeqOf:int"],
   extra_expl=" The *_env harnesses let the caller overwrite its key buffer with the other key and cancel its context right after Get returned (variables captured by the background goroutine become shared state from the go statement on): the build never observes the cancellation, the built value is stored under the key Get was called with and the lock of that key is released. The sequential harnesses verifH_C04_Seq* (integer mode) run two Gets for one key one after the other with the failure cache in play (default FailedUpdateTTL or -1), every configuration, every entry age (absent / fresh / stale / too stale, re-aged between the Gets), both builder outcomes and an arbitrary time between the Gets: every Get returns and no key lock remains at quiescence.")
P["C04"]["thorough"]["l2_labels"]="no key lock remains|no build in flight|auto:|quiescence|never observes the caller|stored under the key its Get"
fo("C05","With SyncRead enabled (and no injected faults) no builder invocation for a key starts after a build for that key has succeeded, under every schedule. The failure-suppression half is decided sequentially (verifH_C05_*): after a failed build the cached error is served without invoking the builder while t2-t1 is inside the failure TTL window, the builder is invoked again after it, and always with FailedUpdateTTL=-1.",
   "SyncRead: no build starts", seq=["verifH_C05_Failover:int","verifH_C05_FailoverOf:int"])

P["C16"]=dict(level="model_checking",
 explanation="Data races are decided on the unfused automata: every access to shared state is its own event (no reduction), two threads perform one public operation each on a shared ShardedMap, SyncMap or ShardedMapOf[int] holding one entry (Read, Write, Write of another key, Delete, ExpireAll, DeleteAll, Len, Walk with a callback reading Key/Value/ExpireAt, a cleanup cycle); each pair is its own composition. Race predicate (DRF-SC): some schedule makes two conflicting accesses of different threads (same location, at least one write, not both sync/atomic or sync.Map operations; a Go map is one location) adjacent in the global order, i.e. unordered by any synchronisation - decided by the solver over the clock/read-from encoding. Also: no unlock of an unlocked mutex, no deadlock. Findings are named by the functions containing the two accesses; each is confirmed natively with go test -race on the two-operation program.",
 bounds="pairs of operations (quick: {Read,Write,Delete,Walk} x {ExpireAll,DeleteAll,Write other,cleanup,Len} = 20 pairs per backend; thorough: all 81 ordered pairs per backend); one stored entry; EvictMostExpired",
 outside="programs of more than two operations; LRU/LFU counter updates (field C) against Dump; InvalidationIndex / Failover under the race predicate (Invalidator: two concurrent Invalidate calls are covered by verifL_Race_Invalidator, SkipInterval zero or set) (their event exploration with unfused blocks exceeded the path bound: InvalidationIndex 200000 paths); Dump/Restore (gob stub)",
 assumptions=["sync.Map and sync/atomic operations are atomic and never racy","sequential consistency for race-free executions (Go memory model DRF-SC)"],
 technique="event automata from go/ssa without fusion + SMT race predicate over a symbolic schedule (clock/read-from encoding); native go test -race replay of each finding",
 quick=dict(harnesses=[], l2=["verifL_Race_ShardedMap:l2","verifL_Race_SyncMap:l2","verifL_Race_ShardedMapOf:l2","verifL_Race_Invalidator:l2"], l2_jobs=3, l2_par=16, l2_timeout=120),
 thorough=dict(harnesses=[], l2=["verifL_Race_ShardedMap_all:l2","verifL_Race_SyncMap_all:l2","verifL_Race_ShardedMapOf_all:l2","verifL_Race_Invalidator:l2"], l2_jobs=3, l2_par=16, l2_timeout=300))

P["C08"]=dict(level="model_checking",
 explanation="Linearizability is decided per configuration by the solver over all schedules: two threads run real backend operations (Read, Write, Delete, ExpireAll, DeleteAll; thorough: thread A runs two of Read/Write/Delete in program order against one operation of thread B) on one key of a shared ShardedMap, SyncMap or ShardedMapOf[int]; each thread is explored in event mode from the go/ssa of the real methods (shard RWMutex Lock/RLock regions, Go map and sync.Map accesses, entry fields are events), the automata are composed with a symbolic scheduler, and at quiescence the oracle asserts that the tuple (result of every operation, final presence, final value, final dated/undated expiry) equals that of SOME sequential order of the operations on a 3-field reference register that respects program order. Because both operations overlap in every explored schedule, real-time precedence only constrains program order inside a thread, which the oracle respects. The Walk harness runs Walk against Read/Write/Delete of another key in the same or another shard: the untouched entry is visited exactly once, the other key at most once and only with a value that was stored, the returned count equals the number of callbacks.",
 bounds="2 threads; 2 operations (quick) or 2+1 operations (thorough) on one key; pre-stored entry absent / never expiring / already expired (the *_stale compositions, with and without LFU usage counters, operations there include one janitor cleanup cycle with DeleteExpiredAfter=5ns; a Read then reports the stale value and its expiry through ErrWithExpiredItem, read from the error after Read returned, as Failover does); Walk harness: 2 keys (same shard / different shards), one concurrent point operation; clock frozen; one pre-stored entry or none; UnlimitedTTL config, no jitter",
 outside="more than 2 goroutines or 3 operations; an entry whose expiry equals the frozen clock reading may be reported as a hit or as expired (both accepted); LRU counters; eviction as a concurrent batch operation (cleanup is raced in C16 only); hash-colliding keys (same 64-bit hash); Walk against ExpireAll/DeleteAll",
 assumptions=["sync.Map operations (Load, Store, LoadAndDelete, LoadOrStore, Delete, Range step) are atomic per call; Range visits the keys present when each step executes","blocks are formed by Lipton reduction over the lockset facts recomputed on every run","sequential consistency (race freedom of these accesses is the subject of C16)"],
 technique="event automata from go/ssa + bounded model checking of the composition with a symbolic scheduler (partial-order SMT encoding); linearizability oracle = disjunction over sequential orders of a reference register evaluated by the solver",
 quick=dict(harnesses=[], l2=["verifL_Lin2_ShardedMap:l2","verifL_Lin2_SyncMap:l2","verifL_Lin2_ShardedMapOf:l2","verifL_Lin2_ShardedMap_stale:l2","verifL_Lin2_SyncMap_stale:l2","verifL_Lin2_ShardedMapOf_stale:l2","verifL_LinWalk_ShardedMap:l2","verifL_LinWalk_SyncMap:l2","verifL_LinWalk_ShardedMapOf:l2"], l2_jobs=3, l2_par=16, l2_timeout=120),
 thorough=dict(harnesses=[], l2=["verifL_Lin2_ShardedMap:l2","verifL_Lin2_SyncMap:l2","verifL_Lin2_ShardedMapOf:l2","verifL_Lin2_ShardedMap_stale:l2","verifL_Lin2_SyncMap_stale:l2","verifL_Lin2_ShardedMapOf_stale:l2","verifL_LinWalk_ShardedMap:l2","verifL_LinWalk_SyncMap:l2","verifL_LinWalk_ShardedMapOf:l2","verifL_Lin3_ShardedMap:l2","verifL_Lin3_SyncMap:l2","verifL_Lin3_ShardedMapOf:l2"], l2_jobs=3, l2_par=16, l2_timeout=300))

P["C14"]=dict(level="other",
 explanation="The transfer half of the property is decided on the real HTTPTransfer.Export handler, HTTPTransfer.Import and importCache, together with the real Dump/Restore of ShardedMap and SyncMap: an exporter and an importer HTTPTransfer each register an arbitrary subset of three cache names; every exporter cache holds an arbitrary subset of two keys with symbolic non-zero values and symbolic expiry; the importer's Transport is a harness RoundTripper that runs the exporter's real handler in process (with the exporter's own types hash installed while it runs) and hands its status and body back as the response. Importer and exporter types hashes are arbitrary 64-bit values (equal, or assumed different). For every path the solver decides: Import returns nil; a cache whose name the exporter knows and whose hash matches ends up with exactly the exporter's entries of that name (keys, values, expiry, count); with a different hash or an unknown name the importer's cache stays empty; the exporter's caches are unchanged. verifH_C14_TwoRounds runs two transfers on the same pair of HTTPTransfer instances with both sides' types hashes re-chosen in between (a type was registered): each transfer must follow the hashes current at that time. The *_Faults harnesses let RoundTrip fail, or the body break, for one cache name: that cache then holds only exporter entries (possibly none) and the others are imported as usual.",
 bounds="<=3 cache names per side, <=2 entries per cache (third cache <=1), ShardedMap/SyncMap on either side, one fault per Import (RoundTrip error or body that breaks before its first byte)",
 outside="the types-hash half of the property (GobRegister/recursiveTypeHash: determinism across processes, independence of registration order and multiplicity, sensitivity to an added type) - reflect type descriptors cannot be encoded by the executor, see DESIGN.md section 7; the gob wire format and mid-record truncation (record-stream stub); real network transports, URL syntax (export URL assumed valid, without query); ShardedMapOf (HTTPTransfer takes WalkDumpRestorer of interface{} values); ExportJSONL",
 assumptions=["net/url and net/http plumbing is modelled at the level of the data it carries (stubs_used lists each: url.Parse, URL.Query/Values.Encode as inverse pair over an opaque string, URL.String/http.NewRequest likewise, http.Error = WriteHeader+Write, headers not modelled, io.ReadAll/io.Copy as Read loops)","strconv.FormatUint is injective (decimal rendering for constants, an injective atom for symbolic values)","encoding/gob modelled as a record stream (as in C13)","no Logger configured (the logging branches are not taken)"],
 quick=dict(harnesses=["verifH_C14_Sharded_Sharded","verifH_C14_Faults","verifH_C14_TwoRounds"], jobs=3, workers=5),
 thorough=dict(harnesses=["verifH_C14_Sharded_Sharded","verifH_C14_Sharded_Sync","verifH_C14_Sync_Sharded","verifH_C14_Sync_Sync","verifH_C14_Faults","verifH_C14_Faults3","verifH_C14_TwoRounds"], jobs=3, workers=5))

json.dump({"common_assumptions":common,"properties":P},open('/verif/checks.json','w'),indent=1)
print("checks.json:",sorted(P))

# ---- MANIFEST.json
props=[json.loads(l) for l in open('/verif/properties.jsonl')]
NA={}
PENDING="concurrency layer (event automata + BMC with symbolic scheduler) not built yet in this session; see DESIGN.md section 8"
checks=[]
for pr in props:
    pid=pr["id"]
    if pid not in P: continue
    c=P[pid]
    checks.append({
      "property_id":pid,
      "quick_cmd":"./check %s quick"%pid,
      "thorough_cmd":"./check %s thorough"%pid,
      "evidence_file":"/verif/evidence/%s.json"%pid,
      "replay_cmd_template":"./check replay {path}",
      "engine":"symgo",
      "level_claimed":{"category":c["level"],"text":c["explanation"],"design_ref":"DESIGN.md section 4 (%s), section 9 (as built)"%pid},
      "level_note":"Bounds: %s. Outside the claim: %s. Trusted: the symgo executor's Go semantics, the stubs listed in the evidence file (stubs_used), z3 4.8.12. Every reported violation is first reproduced natively (go test -overlay with the harness as its own replay)."%(c["bounds"],c["outside"]),
      "technique":c.get("technique","bounded symbolic execution of the real functions' go/ssa + SMT (z3): each assertion decided for all symbolic inputs of every feasible path; counterexamples replayed natively"),
    })
na=[]
for pr in props:
    if pr["id"] in P: continue
    na.append({"property_id":pr["id"],"reason":NA.get(pr["id"],PENDING)})
m={"version":1,"setup_cmd":"./setup.sh",
 "hooks":{"guard":"verif","enable":"no guarded code exists in /repo: harnesses are in-package files under /verif/harness injected with packages.Config.Overlay (encoder) and go test -overlay (native replay)","baseline_off_cmd":"cd /repo && go test -vet=off -count=1 -timeout 25m ./...","source_commits":[],"add_only":True},
 "engines":[{"name":"symgo","path":"/verif/engine","serves_properties":sorted(P),"kind_free_text":"own symbolic executor for go/ssa (x/tools v0.29.0) with SMT-LIB2 back end (z3 4.8.12 via one persistent process per worker); forking path exploration, symbolic scalars, concrete-shaped heap; harnesses are in-package Go functions that are also their own native replay"}],
 "checks":checks,
 "notes":"Exit codes of ./check: 0 held within bounds (KNOWN-FINDING lines possible), 1 reproduced VIOLATION, 2 inconclusive (engine error, solver unknown, vacuity witness failed, model not reproducible). Repairs of genuine defects are unguarded 'fix:' commits in /repo, listed as fixed in /verif/known_findings.json.",
 "not_applicable":na}
json.dump(m,open('/verif/MANIFEST.json','w'),indent=1)
print("manifest checks:",[c["property_id"] for c in checks],"NA:",[n["property_id"] for n in na])
