#!/bin/bash
# usage: seedtest.sh <seed-id> <property> <dir with patch.diff, zz_seed_demo_test.go, README.txt> [tier]
# 1. confirms the seeded change in a scratch worktree (suite passes with it, demo fails with it, demo passes without)
# 2. applies it to /repo, runs the property's check, undoes it
set -u
export GOFLAGS=-mod=mod GOPROXY=off GOSUMDB=off GOTOOLCHAIN=local
SID=$1; PID=$2; SRC=$3; TIER=${4:-quick}
OUT=/verif/seeded/$SID
mkdir -p $OUT
cp $SRC/patch.diff $OUT/patch.diff
cp $SRC/zz_seed_demo_test.go $OUT/zz_seed_demo_test.go 2>/dev/null
cp $SRC/README.txt $OUT/README.agent.txt 2>/dev/null
WT=/tmp/seedcheck_$SID
rm -rf $WT; git -C /repo worktree prune; git -C /repo worktree add -q --detach $WT HEAD || exit 3
RACE=""
if grep -q "race" $OUT/README.agent.txt 2>/dev/null && [ "$PID" = "C16" ]; then RACE="-race"; fi
cd $WT
cp $OUT/zz_seed_demo_test.go . 
DEMO_WITHOUT=$(go test $RACE -vet=off -count=1 -run 'Seed|seed|Demo' . 2>&1 | tail -3 | tr '\n' ' ')
git apply $OUT/patch.diff || { echo "PATCH DOES NOT APPLY"; cd /; git -C /repo worktree remove --force $WT; exit 3; }
DEMO_WITH=$(go test $RACE -vet=off -count=1 -run 'Seed|seed|Demo' . 2>&1 | tail -3 | tr '\n' ' ')
rm zz_seed_demo_test.go
go test -vet=off -count=1 ./... > $OUT/suite.log 2>&1; SUITE=$(tail -3 $OUT/suite.log | tr "\n" " ")
cd /; git -C /repo worktree remove --force $WT
echo "demo without change: $DEMO_WITHOUT"
echo "demo with change:    $DEMO_WITH"
echo "suite with change:   $SUITE"
# run the check against the change
git -C /repo apply $OUT/patch.diff || { echo "cannot apply to /repo"; exit 3; }
cd /verif
START=$(date +%s)
CHK=$(VERIF_EVIDENCE_DIR=/tmp/seed_evidence VERIF_REPLAY_DIR=/tmp/seed_replays ./check $PID $TIER 2>&1); RC=$?
END=$(date +%s)
git -C /repo checkout -- .
echo "check $PID $TIER: exit=$RC ($((END-START))s)"
echo "$CHK" | grep -v "KNOWN-FINDING" | head -8 | cut -c1-400
python3 - <<PY
import json
m={"seed":"$SID","property":"$PID","tier":"$TIER","demo_without_change":"""$DEMO_WITHOUT""","demo_with_change":"""$DEMO_WITH""","suite_with_change":"""$SUITE""","check_exit":$RC,"check_seconds":$((END-START)),
 "check_output_head":"""$(echo "$CHK" | grep -v KNOWN-FINDING | head -4 | cut -c1-300 | sed 's/"/\\"/g')"""}
json.dump(m,open("$OUT/run.json","w"),indent=1)
PY
