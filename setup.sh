#!/bin/sh
# builds the symbolic executor from files on disk only (offline)
set -e
cd "$(dirname "$0")/engine"
export GOFLAGS=-mod=mod GOPROXY=off GOSUMDB=off GOTOOLCHAIN=local
mkdir -p ../bin
go build -o ../bin/symgo .
