package cache

import (
	"context"
	"errors"
	"time"
)

// ---------------------------------------------------------------------------
// C18 — metrics account for every cache event exactly once (per-operation accounting)
// ---------------------------------------------------------------------------

type verifStats struct {
	add map[string]float64
	set map[string]float64
}

func verifNewStats() *verifStats {
	return &verifStats{add: map[string]float64{}, set: map[string]float64{}}
}

func (s *verifStats) Add(ctx context.Context, name string, inc float64, lv ...string) {
	k := name
	if len(lv) >= 2 {
		k += "|" + lv[0] + "=" + lv[1]
	}
	s.add[k] += inc
}

func (s *verifStats) Set(ctx context.Context, name string, v float64, lv ...string) {
	s.set[name] = v
}

func (s *verifStats) total() float64 {
	t := 0.0
	for _, v := range s.add {
		t += v
	}
	return t
}

// one backend operation from a symbolic pre-state: the emitted metrics equal what the
// operation's observable outcome prescribes, with the instance's name label.
func verifC18Backend(kind int) {
	st := verifNewStats()
	b := verifNewBackend(kind, Config{Name: "inst", Stats: st, ExpirationJitter: -1})
	clk := verifInstallClock(verifT0, verifT1, true)
	now := clk.last
	keys := [2]string{"a", "b"}
	var present [2]bool
	var es [2]int64
	n := 0
	for i := range keys {
		present[i] = verifBool("present")
		es[i] = verifInt64("E")
		if present[i] {
			b.put([]byte(keys[i]), 10+i, es[i], 0)
			n++
		}
	}
	ki := verifChoice("key", 3)
	key := []byte("missing")
	if ki < 2 {
		key = []byte(keys[ki])
	}
	stored := ki < 2 && present[ki]
	expired := stored && es[ki] != 0 && es[ki] < now
	ctx := context.Background()
	m := func(name string) float64 { return st.add[name+"|name=inst"] }
	op := verifChoice("op", 7)
	switch op {
	case 6:
		// a janitor cleanup cycle: whatever it removes (entries expired longer than DeleteExpiredAfter) is
		// neither a hit/miss/expired read nor a Delete: none of the accounted event counters moves
		b.cleanup()
		verifReach("cleanup cycle")
		verifAssert("a cleanup cycle emits none of the accounted events",
			m(MetricDelete) == 0 && m(MetricHit) == 0 && m(MetricMiss) == 0 && m(MetricExpired) == 0 && m(MetricWrite) == 0)
	case 0:
		skip := verifBool("skipRead")
		if skip {
			ctx = WithSkipRead(ctx)
		}
		_, err := b.read(ctx, key)
		switch {
		case skip:
			verifReach("read skipped")
			verifAssert("skipped read emits nothing", st.total() == 0 && err != nil)
		case !stored:
			verifReach("read miss")
			verifAssert("miss emits exactly one cache_miss", m(MetricMiss) == 1 && st.total() == 1)
		case expired:
			verifReach("read expired")
			verifAssert("expired read emits exactly one cache_expired", m(MetricExpired) == 1 && st.total() == 1)
		default:
			verifReach("read hit")
			verifAssert("hit emits exactly one cache_hit", m(MetricHit) == 1 && st.total() == 1)
		}
	case 1:
		_ = b.write(ctx, key, 5)
		verifReach("write")
		verifAssert("write emits exactly one cache_write", m(MetricWrite) == 1 && st.total() == 1)
	case 2:
		err := b.del.Delete(ctx, key)
		if stored {
			verifReach("delete stored")
			verifAssert("delete of a stored entry emits one cache_delete", err == nil && m(MetricDelete) == 1 && st.total() == 1)
		} else {
			verifReach("delete missing")
			verifClass("delete_missing", true)
			verifAssert("delete of a missing key emits nothing", errors.Is(err, ErrNotFound) && st.total() == 0)
		}
	case 3:
		b.delAll(ctx)
		verifReach("deleteAll")
		verifAssert("DeleteAll emits cache_delete += entries removed", m(MetricDelete) == float64(n) && st.total() == float64(n))
	case 4:
		b.expAll(ctx)
		verifReach("expireAll")
		verifAssert("ExpireAll emits cache_expired += entries touched", m(MetricExpired) == float64(n) && st.total() == float64(n))
	case 5:
		b.count()
		_, _ = b.walk(func(verifEntryView) {})
		verifReach("len/walk")
		verifAssert("Len and Walk emit nothing", st.total() == 0)
	}
}

func verifH_C18_ShardedMap()   { verifC18Backend(0) }
func verifH_C18_SyncMap()      { verifC18Backend(1) }
func verifH_C18_ShardedMapOf() { verifC18Backend(2) }

// Failover: cache_build = builder invocations, cache_failed = failing ones, cache_refreshed = stale re-stores
func verifC18Failover(generic bool) {
	st := verifNewStats()
	rw := &verifFaultyRW{errFault: errors.New("backend fault")}
	rw.state = verifChoice("entryState", 4)
	rw.val = verifCachedVal
	clk := verifInstallClock(verifT0, verifT1, true)
	verifRandFn = func() float64 { return 0.5 }
	maxStale := int64(0)
	switch rw.state {
	case 2:
		rw.expiredAt = clk.last - 10
	case 3:
		rw.expiredAt = clk.last - 1000
		maxStale = 100
	}
	state0 := rw.state
	rw.wrFault[0] = verifBool("writeFault")
	syncRead, syncUpdate, failHard, builderOK, errorsOff := verifBool("syncRead"), verifBool("syncUpdate"), verifBool("failHard"), verifBool("builderOK"), verifBool("failedUpdateTTLOff")
	fut := time.Duration(0)
	if errorsOff {
		fut = -1
	}
	// a builder may also panic (recovered by the caller, as an HTTP server would); only where the build runs
	// inside Get - a panic in the background goroutine would take the process down
	builderPanics := false
	if !builderOK && (syncUpdate || rw.state != 2) {
		builderPanics = verifBool("builderPanics")
	}
	errBuild := errors.New("build failure")
	ctx := context.Background()
	builds := 0
	recovered := false
	guard := func(get func()) {
		defer func() {
			if r := recover(); r != nil {
				recovered = true
			}
		}()
		get()
	}
	if !generic {
		f := NewFailover(FailoverConfig{Name: "fo", Stats: st, Backend: verifFaultyBackend{rw}, SyncRead: syncRead, SyncUpdate: syncUpdate, FailHard: failHard, MaxStaleness: time.Duration(maxStale), FailedUpdateTTL: fut}.Use)
		guard(func() {
			_, _ = f.Get(ctx, []byte("k"), func(ctx context.Context) (interface{}, error) {
				builds++
				if builderOK {
					return verifBuiltVal, nil
				}
				if builderPanics {
					panic("builder panics")
				}
				return nil, errBuild
			})
		})
		verifBackgroundDone = func() bool { f.lock.Lock(); defer f.lock.Unlock(); return len(f.keyLocks) == 0 }
	} else {
		f := NewFailoverOf[int](FailoverConfigOf[int]{Name: "fo", Stats: st, Backend: verifFaultyBackendOf{rw}, SyncRead: syncRead, SyncUpdate: syncUpdate, FailHard: failHard, MaxStaleness: time.Duration(maxStale), FailedUpdateTTL: fut}.Use)
		guard(func() {
			_, _ = f.Get(ctx, []byte("k"), func(ctx context.Context) (int, error) {
				builds++
				if builderOK {
					return verifBuiltVal, nil
				}
				if builderPanics {
					panic("builder panics")
				}
				return 0, errBuild
			})
		})
		verifBackgroundDone = func() bool { f.lock.Lock(); defer f.lock.Unlock(); return len(f.keyLocks) == 0 }
	}
	verifRunBackground()
	m := func(name string) float64 { return st.add[name+"|name=fo"] }
	failed := 0
	if builds > 0 && !builderOK && !builderPanics {
		failed = builds
	}
	if builderPanics && builds > 0 {
		verifReach("builder panicked and the caller recovered")
		verifAssert("a panic of the builder reaches the caller", recovered)
	}
	refreshed := 0
	if state0 == 2 {
		refreshed = 1
	}
	if builds > 0 {
		verifReach("built")
	}
	verifAssert("cache_build equals builder invocations", m(MetricBuild) == float64(builds))
	verifAssert("cache_failed equals failing builder invocations", m(MetricFailed) == float64(failed))
	verifAssert("cache_refreshed equals stale re-stores", m(MetricRefreshed) == float64(refreshed))
	if !errorsOff {
		// the failure cache is a cache instance of its own ("err_<name>"): one read per Get that gets as far as building
		verifAssert("failure cache metrics carry their own name", st.add[MetricWrite+"|name=err_fo"] == float64(failed))
	}
}

func verifH_C18_Failover()   { verifC18Failover(false) }
func verifH_C18_FailoverOf() { verifC18Failover(true) }
