package cache

import (
	"context"
	"errors"
	"time"
)

// ---------------------------------------------------------------------------
// C04 (sequential part): two Gets for one key, one after the other, with the failure cache in
// play: whatever the configuration, the stored entry's age, the builder outcomes and the time
// between the Gets, every Get returns and at quiescence (background build finished) no key lock
// remains. Complements the concurrent compositions, which run with the failure cache off.
// ---------------------------------------------------------------------------

func verifC04Seq(generic bool) {
	verifFloatIdeal()
	rw := &verifFaultyRW{errFault: errors.New("backend fault")} // no faults injected
	rw.state = verifChoice("entryState", 4)
	rw.val = verifCachedVal
	t1 := verifInt64("t1")
	verifAssume(t1 >= verifT0 && t1 <= verifT1)
	now := t1
	verifClockFn = func() int64 { return now }
	r := verifFloat("rand")
	verifAssume(r >= 0 && r < 1)
	verifRandFn = func() float64 { return r }
	maxStale := int64(0)
	switch rw.state {
	case 2:
		rw.expiredAt = t1 - 10
		maxStale = verifIte64(verifBool("maxStalenessSet"), 100, 0)
	case 3:
		rw.expiredAt = t1 - 1000
		maxStale = 100
	}
	fut := verifIte64(verifBool("failureCacheOff"), -1, 0)
	syncRead, syncUpdate, failHard := verifBool("syncRead"), verifBool("syncUpdate"), verifBool("failHard")
	ok1, ok2 := verifBool("builderOK1"), verifBool("builderOK2")
	errBuild := errors.New("build failure")
	ctx := context.Background()
	builds := 0
	get := func() {}
	locks := func() int { return 0 }
	if !generic {
		f := NewFailover(FailoverConfig{Backend: verifFaultyBackend{rw}, SyncRead: syncRead, SyncUpdate: syncUpdate, FailHard: failHard,
			MaxStaleness: time.Duration(maxStale), FailedUpdateTTL: time.Duration(fut)}.Use)
		verifBackgroundDone = func() bool { f.lock.Lock(); defer f.lock.Unlock(); return len(f.keyLocks) == 0 }
		locks = func() int { f.lock.Lock(); defer f.lock.Unlock(); return len(f.keyLocks) }
		get = func() {
			_, _ = f.Get(ctx, []byte("k"), func(ctx context.Context) (interface{}, error) {
				builds++
				if (builds == 1 && ok1) || (builds > 1 && ok2) {
					return verifBuiltVal, nil
				}
				return nil, errBuild
			})
		}
	} else {
		f := NewFailoverOf[int](FailoverConfigOf[int]{Backend: verifFaultyBackendOf{rw}, SyncRead: syncRead, SyncUpdate: syncUpdate, FailHard: failHard,
			MaxStaleness: time.Duration(maxStale), FailedUpdateTTL: time.Duration(fut)}.Use)
		verifBackgroundDone = func() bool { f.lock.Lock(); defer f.lock.Unlock(); return len(f.keyLocks) == 0 }
		locks = func() int { f.lock.Lock(); defer f.lock.Unlock(); return len(f.keyLocks) }
		get = func() {
			_, _ = f.Get(ctx, []byte("k"), func(ctx context.Context) (int, error) {
				builds++
				if (builds == 1 && ok1) || (builds > 1 && ok2) {
					return verifBuiltVal, nil
				}
				return 0, errBuild
			})
		}
	}
	get()
	verifRunBackground()
	verifAssert("no key lock remains after the first Get and its background build", locks() == 0)
	// the entry ages between the Gets: as the first Get left it, or expired again (servable / too stale)
	t2 := verifInt64("t2")
	verifAssume(t2 >= t1 && t2 <= verifT1)
	now = t2
	if rw.state != 0 {
		switch verifChoice("ageing", 3) {
		case 1:
			rw.state, rw.expiredAt = 2, t2-10
		case 2:
			if maxStale != 0 {
				rw.state, rw.expiredAt = 3, t2-1000
			}
		}
	}
	get()
	verifRunBackground()
	verifReach("second Get returned")
	verifAssert("no key lock remains after the second Get and its background build", locks() == 0)
}

func verifH_C04_Seq()   { verifC04Seq(false) }
func verifH_C04_SeqOf() { verifC04Seq(true) }
