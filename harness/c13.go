package cache

import (
	"io"
)

// ---------------------------------------------------------------------------
// C13 — Dump followed by Restore reproduces the cache exactly
// ---------------------------------------------------------------------------

type verifStream struct {
	buf   []byte
	pos   int
	limit int // >=0: reads stop (with ErrUnexpectedEOF) after limit bytes; -1: no truncation
}

func (s *verifStream) Write(p []byte) (int, error) {
	s.buf = append(s.buf, p...)
	return len(p), nil
}

func (s *verifStream) Read(p []byte) (int, error) {
	if s.pos >= len(s.buf) {
		return 0, io.EOF
	}
	n := copy(p, s.buf[s.pos:])
	s.pos += n
	return n, nil
}

type verifDumpRestorer interface {
	Dump(w io.Writer) (int, error)
	Restore(r io.Reader) (int, error)
}

func verifDR(b *verifBackend) verifDumpRestorer {
	if b.generic {
		return b.rwOf.(*ShardedMapOf[int])
	}
	if m, ok := b.rw.(*ShardedMap); ok {
		return m
	}
	return b.rw.(*SyncMap)
}

var verifC13Keys = [3]string{"aaaa", "bb", "c"}
var verifPerms = [6][3]int{{0, 1, 2}, {0, 2, 1}, {1, 0, 2}, {1, 2, 0}, {2, 0, 1}, {2, 1, 0}}

func verifC13(srcKind, dstKind int, relay bool) {
	verifInstallClock(verifT0, verifT1, true)
	src := verifNewBackend(srcKind, Config{ExpirationJitter: -1})
	dst := verifNewBackend(dstKind, Config{ExpirationJitter: -1})
	perm := verifPerms[verifChoice("keyPerm", 6)]
	type ent struct {
		key     string
		val     interface{}
		e       int64
		present bool
	}
	var es [3]ent
	n := 0
	zeroAfterNonZero := false
	for i := range es {
		es[i].key = verifC13Keys[perm[i]]
		es[i].present = verifBool("present")
		es[i].e = verifInt64("E")
		vk := 2
		if i > 0 {
			vk = verifChoice("valueKind", 3)
		}
		switch vk {
		case 0:
			if src.generic {
				es[i].val = 0
			} // nil for interface{} values
		case 1:
			es[i].val = 0
		default:
			v := verifInt("val")
			verifAssume(v != 0)
			es[i].val = v
		}
		if es[i].present {
			n++
			src.put([]byte(es[i].key), es[i].val, es[i].e, 0)
			if vk != 2 || es[i].e == 0 {
				zeroAfterNonZero = true
			}
		}
	}
	verifClass("record_with_zero_field", zeroAfterNonZero)
	verifClass("more_than_one_record", n > 1)
	st := &verifStream{}
	dn, derr := verifDR(src).Dump(st)
	verifAssert("Dump reports the number of entries", derr == nil && dn == n)
	rn, rerr := verifDR(dst).Restore(st)
	verifAssert("Restore reports the number of entries", rerr == nil && rn == n)
	check := func(b *verifBackend, what string) {
		verifAssert("restored cache has the same number of entries", b.count() == n)
		for i := range es {
			en, ok := b.get([]byte(es[i].key))
			if es[i].present {
				verifReach("entry compared")
				verifAssert("restored entry has its own key, value and expiry", ok && en.key == es[i].key && en.val == es[i].val && en.e == es[i].e)
			} else {
				verifAssert("absent key stays absent", !ok)
			}
		}
		seen := 0
		bad := false
		_, _ = b.walk(func(v verifEntryView) {
			seen++
			found := false
			for i := range es {
				if es[i].present && es[i].key == v.key && es[i].val == v.val {
					found = true
				}
			}
			if !found {
				bad = true
			}
		})
		verifAssert("walk of the restored cache reports exactly the source entries", !bad && seen == n)
	}
	check(dst, "restored")
	if relay {
		third := verifNewBackend(srcKind, Config{ExpirationJitter: -1})
		st2 := &verifStream{}
		dn2, derr2 := verifDR(dst).Dump(st2)
		verifAssert("second Dump reports the number of entries", derr2 == nil && dn2 == n)
		rn2, rerr2 := verifDR(third).Restore(st2)
		verifAssert("second Restore reports the number of entries", rerr2 == nil && rn2 == n)
		check(third, "relayed")
	}
}

func verifH_C13_Sharded_Sharded()     { verifC13(0, 0, false) }
func verifH_C13_Sharded_Sync()        { verifC13(0, 1, false) }
func verifH_C13_Sync_Sharded()        { verifC13(1, 0, false) }
func verifH_C13_Sync_Sync()           { verifC13(1, 1, false) }
func verifH_C13_ShardedOf_ShardedOf() { verifC13(2, 2, false) }
func verifH_C13_Sharded_Sync_relay()  { verifC13(0, 1, true) }
func verifH_C13_Sync_Sharded_relay()  { verifC13(1, 0, true) }
func verifH_C13_ShardedOf_relay()     { verifC13(2, 2, true) }
