package cache

import (
	"context"
	"errors"
	"time"
)

// ---------------------------------------------------------------------------
// C02 (sequential part) — provenance of a lone Get's result under injected backend faults
// ---------------------------------------------------------------------------

// verifFaultyRW wraps scripted faults around a one-key register; it implements both
// ReadWriter and ReadWriterOf[int].
type verifFaultyRW struct {
	state     int // 0 absent, 1 fresh, 2 stale (acceptable), 3 too stale
	val       int
	readFault [3]bool
	wrFault   [3]bool
	reads     int
	writes    int
	errFault  error
	expiredAt int64
}

func (b *verifFaultyRW) readAny(ctx context.Context) (int, error, bool) {
	i := b.reads
	b.reads++
	if i < len(b.readFault) && b.readFault[i] {
		return 0, b.errFault, false
	}
	if SkipRead(ctx) || b.state == 0 {
		return 0, ErrNotFound, false
	}
	return b.val, nil, b.state != 1
}

func (b *verifFaultyRW) writeAny(v int) error {
	i := b.writes
	b.writes++
	if i < len(b.wrFault) && b.wrFault[i] {
		return b.errFault
	}
	b.state, b.val = 1, v
	return nil
}

type verifFaultyBackend struct{ *verifFaultyRW }

func (b verifFaultyBackend) Read(ctx context.Context, key []byte) (interface{}, error) {
	v, err, expired := b.readAny(ctx)
	if err != nil {
		return nil, err
	}
	if expired {
		return nil, errExpired{entry: &TraitEntry{K: key, V: v, E: b.expiredAt}}
	}
	return v, nil
}
func (b verifFaultyBackend) Write(ctx context.Context, key []byte, v interface{}) error {
	return b.writeAny(v.(int))
}

type verifFaultyBackendOf struct{ *verifFaultyRW }

func (b verifFaultyBackendOf) Read(ctx context.Context, key []byte) (int, error) {
	v, err, expired := b.readAny(ctx)
	if err != nil {
		return 0, err
	}
	if expired {
		return 0, errExpiredOf[int]{entry: &TraitEntryOf[int]{K: key, V: v, E: b.expiredAt}}
	}
	return v, nil
}
func (b verifFaultyBackendOf) Write(ctx context.Context, key []byte, v int) error {
	return b.writeAny(v)
}

func verifC02Seq(generic bool) {
	rw := &verifFaultyRW{errFault: errors.New("backend fault")}
	rw.state = verifChoice("entryState", 4)
	rw.val = verifCachedVal
	clk := verifInstallClock(verifT0, verifT1, true)
	verifRandFn = func() float64 { return 0.5 }
	maxStale := int64(0)
	switch rw.state {
	case 2:
		rw.expiredAt = clk.last - 10
		maxStale = verifIte64(verifBool("maxStalenessSet"), 100, 0)
	case 3:
		rw.expiredAt = clk.last - 1000
		maxStale = 100
	}
	anyFault := false
	for i := range rw.readFault {
		rw.readFault[i] = verifBool("readFault")
		rw.wrFault[i] = verifBool("writeFault")
		anyFault = anyFault || rw.readFault[i] || rw.wrFault[i]
	}
	verifClass("backend_fault_injected", anyFault)
	syncRead, syncUpdate, failHard, builderOK := verifBool("syncRead"), verifBool("syncUpdate"), verifBool("failHard"), verifBool("builderOK")
	errBuild := errors.New("build failure")
	ctx := context.Background()
	builds := 0
	var v interface{}
	var err error
	locks := 0
	if !generic {
		f := NewFailover(FailoverConfig{Backend: verifFaultyBackend{rw}, SyncRead: syncRead, SyncUpdate: syncUpdate, FailHard: failHard, MaxStaleness: time.Duration(maxStale)}.Use)
		v, err = f.Get(ctx, []byte("k"), func(ctx context.Context) (interface{}, error) {
			builds++
			if builderOK {
				return verifBuiltVal, nil
			}
			return nil, errBuild
		})
		verifBackgroundDone = func() bool { f.lock.Lock(); defer f.lock.Unlock(); return len(f.keyLocks) == 0 }
		verifRunBackground()
		locks = len(f.keyLocks)
	} else {
		f := NewFailoverOf[int](FailoverConfigOf[int]{Backend: verifFaultyBackendOf{rw}, SyncRead: syncRead, SyncUpdate: syncUpdate, FailHard: failHard, MaxStaleness: time.Duration(maxStale)}.Use)
		v, err = f.Get(ctx, []byte("k"), func(ctx context.Context) (int, error) {
			builds++
			if builderOK {
				return verifBuiltVal, nil
			}
			return 0, errBuild
		})
		verifBackgroundDone = func() bool { f.lock.Lock(); defer f.lock.Unlock(); return len(f.keyLocks) == 0 }
		verifRunBackground()
		locks = len(f.keyLocks)
	}
	if err == nil {
		verifReach("nil error")
		verifAssert("value with nil error was stored under the key or built for it", (v == verifCachedVal && rw.state != 0) || (v == verifBuiltVal && builds > 0 && builderOK))
	} else {
		verifReach("error")
		verifAssert("error was produced by the builder or the backend", (errors.Is(err, errBuild) && builds > 0 && !builderOK) || (errors.Is(err, rw.errFault) && anyFault))
	}
	verifAssert("at most one build by a lone Get", builds <= 1)
	verifAssert("no key lock remains after quiescence", locks == 0)
}

func verifH_C02_SeqFaults()   { verifC02Seq(false) }
func verifH_C02_SeqFaultsOf() { verifC02Seq(true) }
