package cache

import (
	"context"
	"time"
)

// In-package access to the three backends, so harnesses can construct arbitrary valid
// pre-states directly and drive cleanup cycles without any hook in the repository.

type verifEntryView struct {
	key   string
	val   interface{}
	e     int64
	c     int64
	never bool // Walk views only: ExpireAt() is the zero time
}

type verifBackend struct {
	name    string
	generic bool
	rw      ReadWriter // nil for the generic backend
	rwOf    ReadWriterOf[int]
	del     Deleter
	trait   *Trait
	put     func(key []byte, v interface{}, e, c int64)
	get     func(key []byte) (verifEntryView, bool)
	count   func() int
	walk    func(func(verifEntryView)) (int, error)
	expAll  func(ctx context.Context)
	delAll  func(ctx context.Context)
	cleanup func()
	load    func(key []byte) (interface{}, bool)
	store   func(key []byte, v interface{})
}

func (b *verifBackend) read(ctx context.Context, key []byte) (interface{}, error) {
	if b.generic {
		v, err := b.rwOf.Read(ctx, key)
		if err != nil {
			return nil, err
		}
		return v, nil
	}
	return b.rw.Read(ctx, key)
}

func (b *verifBackend) write(ctx context.Context, key []byte, v interface{}) error {
	if b.generic {
		return b.rwOf.Write(ctx, key, v.(int))
	}
	return b.rw.Write(ctx, key, v)
}

func verifCopyKey(k []byte) []byte {
	c := make([]byte, len(k))
	copy(c, k)
	return c
}

func verifNewBackend(kind int, cfg Config) *verifBackend {
	switch kind {
	case 0:
		m := NewShardedMap(cfg.Use)
		c := m.shardedMap
		return &verifBackend{
			name: "ShardedMap", rw: m, del: m, trait: c.t,
			put: func(key []byte, v interface{}, e, cnt int64) {
				h := verifHash(key)
				c.hashedBuckets[h%shards].data[h] = &TraitEntry{K: verifCopyKey(key), V: v, E: e, C: cnt}
			},
			get: func(key []byte) (verifEntryView, bool) {
				h := verifHash(key)
				en, ok := c.hashedBuckets[h%shards].data[h]
				if !ok || string(en.K) != string(key) {
					return verifEntryView{}, false
				}
				return verifEntryView{key: string(en.K), val: en.V, e: en.E, c: en.C}, true
			},
			count: c.Len,
			walk: func(f func(verifEntryView)) (int, error) {
				return c.Walk(func(en Entry) error {
					f(verifEntryView{key: string(en.Key()), val: en.Value(), e: en.ExpireAt().UnixNano(), never: en.ExpireAt().IsZero()})
					return nil
				})
			},
			expAll: c.ExpireAll, delAll: c.DeleteAll,
			cleanup: func() { c.t.invokeCleanup() },
			load:    c.Load, store: c.Store,
		}
	case 1:
		m := NewSyncMap(cfg.Use)
		c := m.syncMap
		return &verifBackend{
			name: "SyncMap", rw: m, del: m, trait: c.t,
			put: func(key []byte, v interface{}, e, cnt int64) {
				c.data.Store(string(key), &TraitEntry{K: verifCopyKey(key), V: v, E: e, C: cnt})
			},
			get: func(key []byte) (verifEntryView, bool) {
				x, ok := c.data.Load(string(key))
				if !ok {
					return verifEntryView{}, false
				}
				en := x.(*TraitEntry)
				return verifEntryView{key: string(en.K), val: en.V, e: en.E, c: en.C}, true
			},
			count: c.Len,
			walk: func(f func(verifEntryView)) (int, error) {
				return c.Walk(func(en Entry) error {
					f(verifEntryView{key: string(en.Key()), val: en.Value(), e: en.ExpireAt().UnixNano(), never: en.ExpireAt().IsZero()})
					return nil
				})
			},
			expAll: c.ExpireAll, delAll: c.DeleteAll,
			cleanup: func() { c.t.invokeCleanup() },
		}
	default:
		m := NewShardedMapOf[int](cfg.Use)
		c := m.shardedMapOf
		return &verifBackend{
			name: "ShardedMapOf[int]", generic: true, rwOf: m, del: m, trait: &c.t.Trait,
			put: func(key []byte, v interface{}, e, cnt int64) {
				h := verifHash(key)
				c.hashedBuckets[h%shards].data[h] = &TraitEntryOf[int]{K: verifCopyKey(key), V: v.(int), E: e, C: cnt}
			},
			get: func(key []byte) (verifEntryView, bool) {
				h := verifHash(key)
				en, ok := c.hashedBuckets[h%shards].data[h]
				if !ok || string(en.K) != string(key) {
					return verifEntryView{}, false
				}
				return verifEntryView{key: string(en.K), val: en.V, e: en.E, c: en.C}, true
			},
			count: c.Len,
			walk: func(f func(verifEntryView)) (int, error) {
				return c.Walk(func(en EntryOf[int]) error {
					f(verifEntryView{key: string(en.Key()), val: en.Value(), e: en.ExpireAt().UnixNano(), never: en.ExpireAt().IsZero()})
					return nil
				})
			},
			expAll: c.ExpireAll, delAll: c.DeleteAll,
			cleanup: func() { c.t.invokeCleanup() },
			load: func(key []byte) (interface{}, bool) {
				v, ok := c.Load(key)
				if !ok {
					return nil, false
				}
				return v, true
			},
			store: func(key []byte, v interface{}) { c.Store(key, v.(int)) },
		}
	}
}

// a frozen or stepping symbolic clock: every reading is >= the previous one and inside [lo,hi]
type verifClock struct {
	last   int64
	frozen bool
	lo, hi int64
	n      int
}

func verifInstallClock(lo, hi int64, frozen bool) *verifClock {
	c := &verifClock{lo: lo, hi: hi, frozen: frozen}
	c.last = verifInt64("now")
	verifAssume(c.last >= lo && c.last <= hi)
	verifClockFn = func() int64 {
		c.n++
		if c.frozen {
			return c.last
		}
		t := verifInt64("now")
		verifAssume(t >= c.last && t <= c.hi)
		c.last = t
		return t
	}
	return c
}

func (c *verifClock) advance() int64 {
	t := verifInt64("now")
	verifAssume(t >= c.last && t <= c.hi)
	c.last = t
	return t
}

const (
	verifT0 = int64(1) << 60 // ~2006
	verifT1 = int64(1) << 62 // ~2116
)

var verifKeys = [...]string{"k0", "k1", "k2", "k3", "k4", "k5"}

var _ = time.Second
