package cache

import (
	"context"
	"errors"
)

// ---------------------------------------------------------------------------
// C15 — label invalidation is complete, precise and loses nothing on failure
// ---------------------------------------------------------------------------

type verifDeleter struct {
	// duringCall: runs inside the n-th Delete call (1-based) - stands for another goroutine that uses
	// the index while this invalidation is between two deletes (the index lock is not held then)
	duringCall func(n int)
	calls      int
	failAt     int // 1-based index of the Delete call that fails (0: never)
	failErr    error
	missing    map[string]bool // keys answered with ErrNotFound
	okCalls    map[string]int  // key -> number of nil answers
	anyCalls   map[string]int  // key -> number of calls
	healthy    bool
}

func verifNewDeleter() *verifDeleter {
	return &verifDeleter{missing: map[string]bool{}, okCalls: map[string]int{}, anyCalls: map[string]int{}}
}

func (d *verifDeleter) Delete(ctx context.Context, key []byte) error {
	d.calls++
	if d.duringCall != nil {
		d.duringCall(d.calls)
	}
	d.anyCalls[string(key)]++
	if !d.healthy && d.failAt != 0 && d.calls == d.failAt {
		return d.failErr
	}
	if d.missing[string(key)] {
		return ErrNotFound
	}
	d.okCalls[string(key)]++
	d.missing[string(key)] = true // it is gone now
	return nil
}

var verifLabels = [...]string{"L1", "L2", "L3"}

func verifC15(nKeys, nLabels int, twoDeleters bool) {
	idx := NewInvalidationIndex()
	d1 := verifNewDeleter()
	idx.AddCache("n1", d1)
	var d2 *verifDeleter
	if twoDeleters {
		d2 = verifNewDeleter()
		idx.AddCache("n1", d2)
	}
	other := verifNewDeleter()
	idx.AddCache("n2", other)

	keys := []string{"a", "b", "c", "z"}[:nKeys]
	// incidence structure, with optional repeated labelling of key 0
	inc := make([][]bool, nKeys)
	for i := range inc {
		inc[i] = make([]bool, nLabels)
		buf := []byte(keys[i])
		for l := 0; l < nLabels; l++ {
			if verifBool("inc") {
				inc[i][l] = true
				idx.AddLabels("n1", buf, verifLabels[l])
			}
		}
		buf[0] = '!' // the index must not keep a reference to the caller's buffer (C09)
	}
	if verifBool("relabel") {
		inc[0][0] = true
		idx.AddLabels("n1", []byte(keys[0]), verifLabels[0])
	}
	// another cache name with its own key carrying L1
	idx.AddLabels("n2", []byte("other"), verifLabels[0])
	if verifBool("missingKeyA") {
		d1.missing["a"] = true
	}

	// label arguments: any non-empty sequence of <=2 labels
	var args []string
	a0 := verifChoice("arg0", nLabels)
	args = append(args, verifLabels[a0])
	if verifBool("twoArgs") {
		args = append(args, verifLabels[verifChoice("arg1", nLabels)])
	}
	requested := func(l int) bool {
		for _, a := range args {
			if a == verifLabels[l] {
				return true
			}
		}
		return false
	}
	labelled := func(i int) bool {
		for l := 0; l < nLabels; l++ {
			if inc[i][l] && requested(l) {
				return true
			}
		}
		return false
	}

	// failure script
	errBoom := errors.New("boom")
	failAt := verifChoice("failAt", 5) // 0: none, 1..4: that Delete call of deleter d1 fails
	d1.failAt, d1.failErr = failAt, errBoom
	if failAt == 0 && twoDeleters && verifBool("failSecondDeleter") {
		d2.failAt, d2.failErr = 1+verifChoice("failAt2", 2), errBoom
	}
	verifMapOrder(verifChoice("mapOrder", 2))

	verifClass("deleter_fails", failAt != 0 || (twoDeleters && d2.failAt != 0))
	cnt, err := idx.InvalidateByLabels(context.Background(), args...)

	okTotal := func() int {
		n := 0
		for _, k := range keys {
			n += d1.okCalls[k]
			if twoDeleters {
				n += d2.okCalls[k]
			}
		}
		return n + other.okCalls["other"]
	}
	if err == nil {
		verifReach("invalidate succeeded")
		for i, k := range keys {
			if labelled(i) {
				verifAssert("labelled key passed to every deleter of its name exactly once", d1.anyCalls[k] == 1 && (!twoDeleters || d2.anyCalls[k] == 1))
			} else {
				verifAssert("unlabelled key untouched", d1.anyCalls[k] == 0 && (!twoDeleters || d2.anyCalls[k] == 0))
			}
		}
		verifAssert("other cache name: its labelled key deleted by its own deleter only", other.anyCalls["other"] == boolToInt(requested(0)) && d1.anyCalls["other"] == 0)
		verifAssert("returned count equals the number of removed entries", cnt == okTotal())
		return
	}
	verifReach("invalidate failed")
	verifAssert("the deleter's error is returned", errors.Is(err, errBoom))
	verifAssert("count on failure equals the number of removed entries so far", cnt == okTotal())
	for i, k := range keys {
		if !labelled(i) {
			verifAssert("unlabelled key untouched", d1.anyCalls[k] == 0 && (!twoDeleters || d2.anyCalls[k] == 0))
		}
	}
	// recovery: retry with healthy deleters removes every labelled key that was not yet deleted
	d1.healthy = true
	if twoDeleters {
		d2.healthy = true
	}
	// the retry names all the labels again or only one of them: a key not yet deleted must still be
	// indexed under EACH of its labels
	retryArgs := args
	if len(args) == 2 && nKeys <= 3 { // the 4-key variants retry with the same labels (path budget)
		switch verifChoice("retryWith", 3) {
		case 1:
			retryArgs = args[:1]
		case 2:
			retryArgs = args[1:]
		}
	}
	origLabelled := make([]bool, nKeys)
	for i := range keys {
		origLabelled[i] = labelled(i)
	}
	args = retryArgs // requested/labelled now speak about the retry
	_, err2 := idx.InvalidateByLabels(context.Background(), retryArgs...)
	verifAssert("retry after recovery succeeds", err2 == nil)
	for i, k := range keys {
		if labelled(i) {
			gone1 := d1.missing[k]
			gone2 := !twoDeleters || d2.missing[k]
			verifAssert("after the retry every labelled key is gone from every deleter of its name", gone1 && gone2)
		} else if !origLabelled[i] {
			verifAssert("unlabelled key untouched", d1.anyCalls[k] == 0 && (!twoDeleters || d2.anyCalls[k] == 0))
		}
	}
	if requested(0) {
		verifAssert("after the retry the other cache's labelled key is gone", other.missing["other"])
	}
}

func boolToInt(b bool) int {
	if b {
		return 1
	}
	return 0
}

func verifH_C15_k3l2()   { verifC15(3, 2, false) }
func verifH_C15_k4l2()   { verifC15(4, 2, false) }
func verifH_C15_k3l2d2() { verifC15(3, 2, true) }
func verifH_C15_k4l3()   { verifC15(4, 3, false) }

// real backends as deleters: counts reflect entries actually removed
func verifC15Real(kind int) {
	b := verifNewBackend(kind, Config{ExpirationJitter: -1})
	verifInstallClock(verifT0, verifT1, true)
	var idx *InvalidationIndex
	switch kind {
	case 0:
		idx = b.rw.(*ShardedMap).InvalidationIndex
	case 1:
		idx = b.rw.(*SyncMap).InvalidationIndex
	default:
		idx = b.rwOf.(*ShardedMapOf[int]).InvalidationIndex
	}
	keys := []string{"a", "b", "c"}
	stored := 0
	var present, lab [3]bool
	for i, k := range keys {
		present[i] = verifBool("present")
		lab[i] = verifBool("labelled")
		if present[i] {
			b.put([]byte(k), 1+i, 0, 0)
		}
		if lab[i] {
			idx.AddInvalidationLabels([]byte(k), "L1")
			if present[i] {
				stored++
			}
		}
	}
	verifClass("labelled_key_not_stored", (lab[0] && !present[0]) || (lab[1] && !present[1]) || (lab[2] && !present[2]))
	cnt, err := idx.InvalidateByLabels(context.Background(), "L1")
	verifAssert("invalidate with real deleter succeeds", err == nil)
	verifAssert("count equals entries actually removed (real deleter)", cnt == stored)
	for i, k := range keys {
		_, ok := b.get([]byte(k))
		verifAssert("labelled entries are gone, others stay (real deleter)", ok == (present[i] && !lab[i]))
	}
}

func verifH_C15_RealShardedMap()   { verifC15Real(0) }
func verifH_C15_RealSyncMap()      { verifC15Real(1) }
func verifH_C15_RealShardedMapOf() { verifC15Real(2) }

// Labels added while an invalidation is in flight: during the first Delete call of an InvalidateByLabels(L1)
// one or two NEW keys are labelled with L1 (the index lock is free at that moment, so this is exactly what a
// concurrent AddLabels does). Every key that carried L1 before the call is deleted by it; the new keys are
// either deleted by this call or still indexed, so that a second call removes them; no key is deleted twice.
func verifC15During(nOld int) {
	idx := NewInvalidationIndex()
	d := verifNewDeleter()
	idx.AddCache("n1", d)
	old := []string{"a", "b", "c"}[:nOld]
	for _, k := range old {
		idx.AddLabels("n1", []byte(k), "L1")
	}
	added := verifChoice("labelledDuringTheCall", 3) // 0, 1 or 2 new keys
	at := 1 + verifChoice("duringDeleteCall", nOld)
	newKeys := []string{"x", "y"}[:added]
	d.duringCall = func(n int) {
		if n == at {
			for _, k := range newKeys {
				idx.AddLabels("n1", []byte(k), "L1")
			}
		}
	}
	verifMapOrder(verifChoice("mapOrder", 2))
	cnt, err := idx.InvalidateByLabels(context.Background(), "L1")
	d.duringCall = nil
	verifAssert("invalidate succeeds while labels are being added", err == nil)
	for _, k := range old {
		verifAssert("a key labelled before the call is deleted by it", d.okCalls[k] == 1 && d.anyCalls[k] == 1)
	}
	first := 0
	for _, k := range newKeys {
		first += d.okCalls[k]
	}
	verifAssert("count equals the entries removed by this call", cnt == nOld+first)
	cnt2, err2 := idx.InvalidateByLabels(context.Background(), "L1")
	verifReach("labels added during an invalidation")
	verifAssert("second invalidate succeeds", err2 == nil)
	for _, k := range newKeys {
		verifAssert("a key labelled during the call is removed by it or by the next call, once", d.okCalls[k] == 1)
	}
	for _, k := range old {
		verifAssert("no key is deleted twice", d.okCalls[k] == 1)
	}
	verifAssert("second count equals the entries it removed", cnt2 == added-first)
}

func verifH_C15_During2() { verifC15During(2) }
func verifH_C15_During3() { verifC15During(3) }

// Labels added while an invalidation that FAILS is in flight: new keys are labelled with L1 from inside a
// Delete call, a (possibly later) Delete call of the same invalidation fails. The failing call puts the
// unprocessed keys back next to whatever was indexed meanwhile: after the deleter recovered, one more call
// removes every key - old or new - exactly once over the two calls.
func verifC15DuringFail(nOld int) {
	idx := NewInvalidationIndex()
	d := verifNewDeleter()
	idx.AddCache("n1", d)
	old := []string{"a", "b", "c"}[:nOld]
	for _, k := range old {
		idx.AddLabels("n1", []byte(k), "L1")
	}
	added := 1 + verifChoice("labelledDuringTheCall", 2) // 1 or 2 new keys
	at := 1 + verifChoice("duringDeleteCall", nOld)
	d.failAt, d.failErr = 1+verifChoice("failAt", nOld), errors.New("boom")
	verifAssume(at <= d.failAt) // the labels are added before the invalidation is aborted
	newKeys := []string{"x", "y"}[:added]
	d.duringCall = func(n int) {
		if n == at {
			for _, k := range newKeys {
				idx.AddLabels("n1", []byte(k), "L1")
			}
		}
	}
	verifMapOrder(verifChoice("mapOrder", 2))
	cnt, err := idx.InvalidateByLabels(context.Background(), "L1")
	d.duringCall = nil
	if err == nil { // the new keys were appended behind the failing position and the call never got there
		return
	}
	first := 0
	for _, k := range old {
		first += d.okCalls[k]
	}
	for _, k := range newKeys {
		first += d.okCalls[k]
	}
	verifAssert("count of the failing call equals the entries it removed", cnt == first)
	d.healthy = true
	cnt2, err2 := idx.InvalidateByLabels(context.Background(), "L1")
	verifReach("labels added during a failing invalidation")
	verifAssert("retry succeeds", err2 == nil)
	for _, k := range old {
		verifAssert("a key labelled before the failing call is removed exactly once over the two calls", d.okCalls[k] == 1)
	}
	for _, k := range newKeys {
		verifAssert("a key labelled during the failing call is removed exactly once over the two calls", d.okCalls[k] == 1)
	}
	verifAssert("retry count equals the entries it removed", cnt+cnt2 == nOld+added)
}

func verifH_C15_DuringFail2() { verifC15DuringFail(2) }
func verifH_C15_DuringFail3() { verifC15DuringFail(3) }
