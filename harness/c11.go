package cache

import (
	"context"
	"time"
)

// ---------------------------------------------------------------------------
// C11 — the janitor deletes only entries expired longer than DeleteExpiredAfter
// ---------------------------------------------------------------------------

func verifC11(kind int, cycles int) {
	unlimited := verifBool("unlimitedTTL")
	dea := verifInt64("deleteExpiredAfter")
	verifAssume(dea > 0 && dea <= int64(1)<<60)
	expSet := verifInt64("expirationsSet")
	verifAssume(expSet >= 0 && expSet < 1000)

	cfg := Config{DeleteExpiredAfter: time.Duration(dea), ExpirationJitter: -1}
	if unlimited {
		cfg.TimeToLive = UnlimitedTTL
	}
	// eviction limits may be configured but are NOT exceeded: any subset of the three soft limits, the
	// count limit above the number of entries, memory readings at or below the memory limits
	heapRead, sysRead := verifUint64("heapInuseReading"), verifUint64("sysReading")
	limits := verifChoice("limitsConfigured", 5) // 0 none, 1 count, 2 heap only, 3 sys only, 4 heap and sys
	if limits == 1 {
		cfg.CountSoftLimit = 3
	}
	if limits == 2 || limits == 4 {
		cfg.HeapInUseSoftLimit = verifUint64("heapInUseSoftLimit")
		verifAssume(cfg.HeapInUseSoftLimit != 0 && heapRead <= cfg.HeapInUseSoftLimit)
	}
	if limits == 3 || limits == 4 {
		cfg.SysMemSoftLimit = verifUint64("sysMemSoftLimit")
		verifAssume(cfg.SysMemSoftLimit != 0 && sysRead <= cfg.SysMemSoftLimit)
	}
	cfg.EvictFraction = 0.5
	verifMemStatsFn = func() (uint64, uint64) { return heapRead, sysRead }
	b := verifNewBackend(kind, cfg)
	b.trait.expirationsSet = expSet
	clk := verifInstallClock(verifT0, verifT1, true)

	const n = 3
	// two of the keys live in the same shard of the sharded backends (xxhash%128 = 91), one elsewhere
	keys := [n]string{"a", "k289", "b"}
	var es [n]int64
	var present [n]bool
	anyNever := false
	for i := 0; i < n; i++ {
		present[i] = verifBool("present")
		es[i] = verifInt64("E")
		if present[i] {
			b.put([]byte(keys[i]), 100+i, es[i], 0)
			if es[i] == 0 {
				anyNever = true
			}
		}
	}
	verifClass("never_expiring_entry_present", anyNever)
	// reachable-state restriction: with UnlimitedTTL and no expiration ever set, no entry is dated
	if unlimited && expSet == 0 {
		for i := 0; i < n; i++ {
			verifAssume(!present[i] || es[i] == 0)
		}
	}

	for cyc := 0; cyc < cycles; cyc++ {
		now := clk.last
		b.cleanup()
		boundary := now - dea
		left := 0
		for i := 0; i < n; i++ {
			if !present[i] {
				continue
			}
			en, ok := b.get([]byte(keys[i]))
			wantKept := es[i] == 0 || es[i] >= boundary
			if wantKept {
				verifReach("kept")
				verifAssert("entry not expired longer than DeleteExpiredAfter survives cleanup", ok)
				verifAssert("surviving entry is unchanged", !ok || (en.e == es[i] && en.val == 100+i && en.key == keys[i]))
				left++
			} else {
				verifReach("deleted")
				verifAssert("entry expired longer than DeleteExpiredAfter is deleted", !ok)
				present[i] = false
			}
		}
		verifAssert("Len agrees after cleanup", b.count() == left)
		clk.advance()
	}
}

func verifH_C11_ShardedMap()        { verifC11(0, 1) }
func verifH_C11_SyncMap()           { verifC11(1, 1) }
func verifH_C11_ShardedMapOf()      { verifC11(2, 1) }
func verifH_C11_ShardedMap_2cyc()   { verifC11(0, 2) }
func verifH_C11_SyncMap_2cyc()      { verifC11(1, 2) }
func verifH_C11_ShardedMapOf_2cyc() { verifC11(2, 2) }

// ---------------------------------------------------------------------------
// C11, histories through the public API with the janitor's own cleanup cycle: an entry becomes
// dated by a per-call TTL, by ExpireAll or by arriving through Restore; after an arbitrary time
// one cycle of the janitor THE CONSTRUCTOR STARTED (on the receiver it was started on) must
// delete it exactly when it has been expired for longer than DeleteExpiredAfter.
// ---------------------------------------------------------------------------

func verifC11History(kind int) {
	unlimited := verifBool("unlimitedTTL")
	dea := verifInt64("deleteExpiredAfter")
	verifAssume(dea > 0 && dea <= int64(1)<<50)
	cfg := Config{DeleteExpiredAfter: time.Duration(dea), ExpirationJitter: -1, DeleteExpiredJobInterval: time.Millisecond}
	if unlimited {
		cfg.TimeToLive = UnlimitedTTL
	} else {
		cfg.TimeToLive = time.Duration(int64(1) << 40)
	}
	b := verifNewBackend(kind, cfg)
	clk := verifInstallClock(verifT0, verifT1, true)
	ctx := context.Background()
	key := []byte("a")
	how := verifChoice("datedBy", 4) // 0: nothing (config TTL only), 1: per-call TTL, 2: ExpireAll, 3: per-call TTL then Dump/Restore into a second cache
	wctx := ctx
	if how == 1 || how == 3 {
		ttl := verifInt64("callTTL")
		verifAssume(ttl != 0 && ttl > -(int64(1)<<50) && ttl < int64(1)<<50)
		wctx = WithTTL(ctx, time.Duration(ttl), true)
	}
	_ = b.write(wctx, key, 7)
	switch how {
	case 2:
		b.expAll(ctx)
	case 3:
		st := &verifStream{}
		_, derr := verifDR(b).Dump(st)
		b2 := verifNewBackend(kind, cfg)
		_, rerr := verifDR(b2).Restore(st)
		verifAssert("dump and restore succeed", derr == nil && rerr == nil)
		b = b2
	}
	// the entry as stored (Walk takes the backend's own locks)
	stored, e0 := false, int64(0)
	_, _ = b.walk(func(v verifEntryView) {
		if v.key == "a" {
			stored, e0 = true, v.e
			if v.never {
				e0 = 0
			}
		}
	})
	verifAssert("entry stored", stored)
	now := clk.advance()
	verifJanitorCycle()
	left := false
	_, _ = b.walk(func(v verifEntryView) {
		if v.key == "a" {
			left = true
		}
	})
	if e0 == 0 || e0 >= now-dea {
		verifReach("history: kept")
		verifAssert("janitor keeps an entry that is not expired longer than DeleteExpiredAfter", left)
	} else {
		verifReach("history: deleted")
		verifAssert("janitor deletes an entry expired longer than DeleteExpiredAfter", !left)
	}
}

func verifH_C11_History_ShardedMap()   { verifC11History(0) }
func verifH_C11_History_SyncMap()      { verifC11History(1) }
func verifH_C11_History_ShardedMapOf() { verifC11History(2) }
