package cache

import "time"

// ---------------------------------------------------------------------------
// C11 — the janitor deletes only entries expired longer than DeleteExpiredAfter
// ---------------------------------------------------------------------------

func verifC11(kind int, cycles int) {
	unlimited := verifBool("unlimitedTTL")
	dea := verifInt64("deleteExpiredAfter")
	verifAssume(dea > 0 && dea <= int64(1)<<60)
	expSet := verifInt64("expirationsSet")
	verifAssume(expSet >= 0 && expSet < 1000)

	cfg := Config{DeleteExpiredAfter: time.Duration(dea), ExpirationJitter: -1}
	if unlimited {
		cfg.TimeToLive = UnlimitedTTL
	}
	b := verifNewBackend(kind, cfg)
	b.trait.expirationsSet = expSet
	clk := verifInstallClock(verifT0, verifT1, true)

	const n = 3
	var es [n]int64
	var present [n]bool
	anyNever := false
	for i := 0; i < n; i++ {
		present[i] = verifBool("present")
		es[i] = verifInt64("E")
		if present[i] {
			b.put([]byte(verifKeys[i]), 100+i, es[i], 0)
			if es[i] == 0 {
				anyNever = true
			}
		}
	}
	verifClass("never_expiring_entry_present", anyNever)
	// reachable-state restriction: with UnlimitedTTL and no expiration ever set, no entry is dated
	if unlimited && expSet == 0 {
		for i := 0; i < n; i++ {
			verifAssume(!present[i] || es[i] == 0)
		}
	}

	for cyc := 0; cyc < cycles; cyc++ {
		now := clk.last
		b.cleanup()
		boundary := now - dea
		left := 0
		for i := 0; i < n; i++ {
			if !present[i] {
				continue
			}
			en, ok := b.get([]byte(verifKeys[i]))
			wantKept := es[i] == 0 || es[i] >= boundary
			if wantKept {
				verifReach("kept")
				verifAssert("entry not expired longer than DeleteExpiredAfter survives cleanup", ok)
				verifAssert("surviving entry is unchanged", !ok || (en.e == es[i] && en.val == 100+i && en.key == verifKeys[i]))
				left++
			} else {
				verifReach("deleted")
				verifAssert("entry expired longer than DeleteExpiredAfter is deleted", !ok)
				present[i] = false
			}
		}
		verifAssert("Len agrees after cleanup", b.count() == left)
		clk.advance()
	}
}

func verifH_C11_ShardedMap()        { verifC11(0, 1) }
func verifH_C11_SyncMap()           { verifC11(1, 1) }
func verifH_C11_ShardedMapOf()      { verifC11(2, 1) }
func verifH_C11_ShardedMap_2cyc()   { verifC11(0, 2) }
func verifH_C11_SyncMap_2cyc()      { verifC11(1, 2) }
func verifH_C11_ShardedMapOf_2cyc() { verifC11(2, 2) }
