package cache

import (
	"context"
	"errors"
	"time"
)

// ---------------------------------------------------------------------------
// C06 — TTL and context travel through Failover as documented
// ---------------------------------------------------------------------------

type verifCtxObs struct {
	ttl      int64
	skipRead bool
	errNil   bool
	doneNil  bool
	hasDL    bool
	userVal  interface{}
}

type verifUserKey struct{}

func verifObserve(ctx context.Context) verifCtxObs {
	_, hasDL := ctx.Deadline()
	return verifCtxObs{
		ttl:      int64(TTL(ctx)),
		skipRead: SkipRead(ctx),
		errNil:   ctx.Err() == nil,
		doneNil:  ctx.Done() == nil,
		hasDL:    hasDL,
		userVal:  ctx.Value(verifUserKey{}),
	}
}

// verifRecBackend is a ReadWriter stub that answers Read from a script and records the
// context of every call.
type verifRecBackend struct {
	readErr  error       // answer of Read when readVal is unset
	readVal  interface{} // returned with nil error when readOK
	readOK   bool
	reads    []verifCtxObs
	writes   []verifCtxObs
	written  []interface{}
	writeErr error
}

func (b *verifRecBackend) Read(ctx context.Context, key []byte) (interface{}, error) {
	b.reads = append(b.reads, verifObserve(ctx))
	if SkipRead(ctx) {
		return nil, ErrNotFound
	}
	if b.readOK {
		return b.readVal, nil
	}
	return nil, b.readErr
}

func (b *verifRecBackend) Write(ctx context.Context, key []byte, v interface{}) error {
	b.writes = append(b.writes, verifObserve(ctx))
	b.written = append(b.written, v)
	if b.writeErr == nil {
		// behave like a cache: the written value is readable afterwards
		b.readOK, b.readVal = true, v
	}
	return b.writeErr
}

// cancellable caller context (stands for context.WithCancel/WithDeadline contexts)
type verifCallerCtx struct {
	context.Context
	cancelled  *bool
	done       chan struct{}
	noDeadline bool // a cancel-only context (context.WithCancel): Deadline() reports none
}

func (c verifCallerCtx) Err() error {
	if *c.cancelled {
		return context.Canceled
	}
	return nil
}
func (c verifCallerCtx) Done() <-chan struct{} { return c.done }
func (c verifCallerCtx) Deadline() (time.Time, bool) {
	if c.noDeadline {
		return time.Time{}, false
	}
	return time.Unix(0, 1), true
}

// reference: "When existing ttl is updated minimal non-zero value is kept."
func verifRefMinNonZero(existing, ttl int64) int64 {
	if ttl == 0 {
		return existing
	}
	if existing == 0 || ttl < existing {
		return ttl
	}
	return existing
}

// cold miss / SkipRead: the final store carries the caller's TTL lowered by the builder.
func verifH_C06_ColdMiss() {
	ttlC := verifInt64("ttlCaller")
	ttlB1 := verifInt64("ttlBuilder1")
	ttlB2 := verifInt64("ttlBuilder2")
	upd1 := verifBool("upd1")
	upd2 := verifBool("upd2")
	callerHasCell := verifBool("callerHasCell")
	skip := verifBool("skipRead")
	two := verifBool("secondWithTTL")
	present := verifBool("entryPresent")

	verifClass("builder_ttl_zero_on_nonzero_cell", verifOr(
		verifAnd(verifAnd(upd1, ttlB1 == 0), ttlC != 0),
		verifAnd(verifAnd(two, verifAnd(upd2, ttlB2 == 0)), verifOr(ttlC != 0, verifAnd(upd1, ttlB1 != 0)))))

	be := &verifRecBackend{readErr: ErrNotFound}
	if present {
		be.readOK, be.readVal = true, "cached"
	}
	f := NewFailover(FailoverConfig{Backend: be, FailedUpdateTTL: -1}.Use)

	ctx := context.WithValue(context.Background(), verifUserKey{}, "user")
	if callerHasCell {
		ctx = WithTTL(ctx, time.Duration(ttlC), false)
	}
	callerCtx := ctx
	if skip {
		ctx = WithSkipRead(ctx)
	}

	builds := 0
	var bObs verifCtxObs
	v, err := f.Get(ctx, []byte("k"), func(c context.Context) (interface{}, error) {
		builds++
		bObs = verifObserve(c)
		c2 := WithTTL(c, time.Duration(ttlB1), upd1)
		if two {
			WithTTL(c2, time.Duration(ttlB2), upd2)
		}
		return "built", nil
	})
	verifAssert("get succeeds", err == nil)

	if present && !skip {
		verifReach("served from cache")
		verifAssert("fresh value served without build", builds == 0 && v == "cached" && len(be.writes) == 0)
		return
	}
	verifReach("built")
	verifAssert("builder invoked once", builds == 1)
	verifAssert("built value returned", v == "built")
	verifAssert("exactly one store", len(be.writes) == 1)
	if len(be.writes) != 1 {
		return
	}
	verifAssert("builder sees caller values", bObs.userVal == "user")
	verifAssert("stored value is the built one", be.written[0] == "built")

	var want int64
	if callerHasCell {
		want = ttlC
		if upd1 {
			want = verifRefMinNonZero(want, ttlB1)
		}
		if two && upd2 {
			// the second WithTTL acts on c2: the shared cell if upd1 found it, a private one otherwise
			if upd1 {
				want = verifRefMinNonZero(want, ttlB2)
			}
		}
	}
	verifAssert("final store uses min non-zero communicated ttl", be.writes[0].ttl == want)
	verifAssert("caller context ttl cell equals store ttl", int64(TTL(callerCtx)) == want)
	if skip {
		verifReach("skipRead")
		verifAssert("SkipRead visible to backend read", be.reads[0].skipRead)
		// the result is stored and readable without the flag
		r, rerr := be.Read(callerCtx, []byte("k"))
		verifAssert("value stored under SkipRead is readable", rerr == nil && r == "built")
	}
}

// stale hit: refresh store uses UpdateTTL, final store does not; background build context is detached.
func verifH_C06_StaleRefresh() {
	ttlC := verifInt64("ttlCaller")
	ttlB := verifInt64("ttlBuilder")
	upd := verifBool("upd")
	callerHasCell := verifBool("callerHasCell")
	syncUpdate := verifBool("syncUpdate")
	updateTTL := verifInt64("updateTTL")
	cancelBefore := verifBool("cancelBefore")
	cancelAfter := verifBool("cancelAfter")

	verifClass("builder_ttl_zero_on_nonzero_cell", verifAnd(verifAnd(upd, ttlB == 0), ttlC != 0))

	stale := &TraitEntry{K: []byte("k"), V: "stale", E: 1}
	be := &verifRecBackend{readErr: errExpired{entry: stale}}
	f := NewFailover(FailoverConfig{Backend: be, FailedUpdateTTL: -1, SyncUpdate: syncUpdate, UpdateTTL: time.Duration(updateTTL)}.Use)
	wantUpdateTTL := updateTTL
	if updateTTL == 0 {
		wantUpdateTTL = int64(time.Minute)
	}

	cancelled := cancelBefore
	base := context.WithValue(context.Background(), verifUserKey{}, "user")
	var ctx context.Context = verifCallerCtx{Context: base, cancelled: &cancelled, done: make(chan struct{}), noDeadline: verifBool("callerCtxCancelOnly")}
	if callerHasCell {
		ctx = WithTTL(ctx, time.Duration(ttlC), false)
	}
	callerCtx := ctx

	builds := 0
	var bObs verifCtxObs
	returned := false
	builtAfterReturn := false
	v, err := f.Get(ctx, []byte("k"), func(c context.Context) (interface{}, error) {
		builds++
		builtAfterReturn = returned
		bObs = verifObserve(c)
		WithTTL(c, time.Duration(ttlB), upd)
		return "built", nil
	})
	returned = true
	if cancelAfter {
		cancelled = true
	}
	verifBackgroundDone = func() bool { f.lock.Lock(); defer f.lock.Unlock(); return len(f.keyLocks) == 0 }
	verifRunBackground()

	verifAssert("get succeeds", err == nil)
	verifAssert("builder invoked once", builds == 1)
	verifAssert("two stores: refresh then final", len(be.writes) == 2)
	if len(be.writes) != 2 {
		return
	}
	verifAssert("refresh store re-stores the stale value", be.written[0] == "stale")
	verifAssert("refresh store uses UpdateTTL", be.writes[0].ttl == wantUpdateTTL)
	var want int64
	if callerHasCell {
		want = ttlC
		if upd {
			want = verifRefMinNonZero(want, ttlB)
		}
	}
	verifAssert("final store ttl unaffected by refresh", be.writes[1].ttl == want)
	verifAssert("caller ttl cell unaffected by refresh", int64(TTL(callerCtx)) == want)
	verifAssert("final store value", be.written[1] == "built")
	verifAssert("builder sees caller values", bObs.userVal == "user")
	if syncUpdate {
		verifReach("sync update")
		verifAssert("sync update returns built value", v == "built" && !builtAfterReturn)
	} else {
		verifReach("background update")
		verifAssert("stale served immediately, build in background", v == "stale" && builtAfterReturn)
		verifAssert("background ctx not cancelled", bObs.errNil)
		verifAssert("background ctx has nil Done", bObs.doneNil)
		verifAssert("background ctx has no deadline", !bObs.hasDL)
		verifAssert("background final store ctx not cancelled", be.writes[1].errNil && be.writes[1].doneNil && !be.writes[1].hasDL)
	}
}

var _ = errors.New

// SkipRead after a failed build: the failure cache remembers the error, but a Get that carries
// SkipRead still rebuilds (SkipRead reaches the failure cache's own backend too) and the result is
// stored; without SkipRead the remembered error is served and nothing is built.
func verifC06SkipAfterFailure(generic bool) {
	verifInstallClock(verifT0, verifT1, true)
	verifRandFn = func() float64 { return 0.5 }
	skip := verifBool("skipRead")
	errBuild := errors.New("build failed")
	builds := 0
	ctx := context.Background()
	ctx2 := ctx
	if skip {
		ctx2 = WithSkipRead(ctx)
	}
	var err1, err2 error
	builds1 := 0
	var v2 interface{}
	var stored interface{}
	var storedOK bool
	if !generic {
		be := &verifRecBackend{readErr: ErrNotFound}
		f := NewFailover(FailoverConfig{Backend: be}.Use)
		build := func(c context.Context) (interface{}, error) {
			builds++
			if builds == 1 {
				return nil, errBuild
			}
			return "built", nil
		}
		_, err1 = f.Get(ctx, []byte("k"), build)
		builds1 = builds
		v2, err2 = f.Get(ctx2, []byte("k"), build)
		stored, storedOK = be.readVal, be.readOK
	} else {
		rw := &verifFaultyRW{errFault: errors.New("backend fault")}
		f := NewFailoverOf[int](FailoverConfigOf[int]{Backend: verifFaultyBackendOf{rw}}.Use)
		build := func(c context.Context) (int, error) {
			builds++
			if builds == 1 {
				return 0, errBuild
			}
			return verifBuiltVal, nil
		}
		_, err1 = f.Get(ctx, []byte("k"), build)
		builds1 = builds
		var vi int
		vi, err2 = f.Get(ctx2, []byte("k"), build)
		if err2 == nil {
			v2 = vi
		}
		stored, storedOK = rw.val, rw.state == 1
	}
	verifAssert("first Get returns the builder error", err1 != nil && errors.Is(err1, errBuild) && builds1 == 1)
	if skip {
		verifReach("SkipRead after a failed build")
		verifAssert("SkipRead forces a rebuild", builds == 2 && err2 == nil)
		if generic {
			verifAssert("the rebuilt value is returned and stored", v2 == verifBuiltVal && storedOK && stored == verifBuiltVal)
		} else {
			verifAssert("the rebuilt value is returned and stored", v2 == "built" && storedOK && stored == "built")
		}
	} else {
		verifReach("no SkipRead after a failed build")
		verifAssert("the remembered failure is served without a build", builds == 1 && err2 != nil && errors.Is(err2, errBuild))
	}
}

func verifH_C06_SkipAfterFailure()   { verifC06SkipAfterFailure(false) }
func verifH_C06_SkipAfterFailureOf() { verifC06SkipAfterFailure(true) }

// The TTL that travels through Failover ends up as the expiry of the entry in a REAL backend, also
// when that backend is configured with UnlimitedTTL: expiry = store instant + min non-zero TTL of
// caller and builder (the backend default, or no expiry under UnlimitedTTL, if none was given).
func verifH_C06_RealBackend() {
	clk := verifInstallClock(verifT0, verifT1, true)
	now := clk.last
	unlimited := verifBool("backendUnlimitedTTL")
	const cfgTTL = int64(time.Hour)
	bc := Config{ExpirationJitter: -1, TimeToLive: time.Duration(cfgTTL)}
	if unlimited {
		bc.TimeToLive = UnlimitedTTL
	}
	f := NewFailover(FailoverConfig{BackendConfig: bc, FailedUpdateTTL: -1}.Use)
	ctx := context.Background()
	ttlC, ttlB := int64(0), int64(0)
	if verifBool("callerHasTTL") {
		ttlC = verifInt64("ttlCaller")
		verifAssume(ttlC != 0 && ttlC > -(int64(1)<<50) && ttlC < int64(1)<<50)
		ctx = WithTTL(ctx, time.Duration(ttlC), false)
	}
	lowers := verifBool("builderLowers")
	if lowers {
		ttlB = verifInt64("ttlBuilder")
		verifAssume(ttlB > -(int64(1)<<50) && ttlB < int64(1)<<50)
	}
	v, err := f.Get(ctx, []byte("k"), func(c context.Context) (interface{}, error) {
		if lowers {
			WithTTL(c, time.Duration(ttlB), true)
		}
		return "built", nil
	})
	verifAssert("get succeeds", err == nil && v == "built")
	want := ttlC
	if lowers && ttlC != 0 { // the builder can only lower a TTL holder the caller provided
		want = verifRefMinNonZero(want, ttlB)
	}
	stored, e, never := false, int64(0), false
	_, _ = f.backend.(*ShardedMap).Walk(func(en Entry) error {
		stored, e = true, en.ExpireAt().UnixNano()
		never = e == 0 // an entry without expiry reports the Unix epoch
		return nil
	})
	verifReach("real backend: built value stored")
	verifAssert("built value is stored in the backend", stored)
	switch {
	case want != 0:
		verifAssert("entry expires at store instant + the TTL carried by the context", !never && e == now+want)
	case unlimited:
		verifAssert("without any TTL an UnlimitedTTL backend stores no expiry", never)
	default:
		verifAssert("without a context TTL the backend default applies", !never && e == now+cfgTTL)
	}
}
