package cache

// Harness intrinsics. The symbolic executor (symgo) intercepts every function whose name
// starts with "verif" and is listed in its intrinsic table; compiled natively the same
// functions read the solver's model from the JSON file named by VERIF_REPLAY, so that a
// harness function is its own replay.

import (
	"github.com/cespare/xxhash/v2"

	"encoding/json"
	"fmt"
	"os"
	"strconv"
	"strings"
	"sync"
	"time"
)

// clock / randomness / hash sources: consulted by the executor for time.Now, time.Since and
// rand.Float64 inside the package; natively by the rewritten replay copy (see check driver).
var (
	verifClockFn func() int64
	verifRandFn  func() float64
	// verifMemStatsFn supplies runtime.MemStats.HeapInuse and .Sys to the soft-limit checks
	verifMemStatsFn func() (heapInuse, sys uint64)
)

// hash values of an uninterpreted-hash model, installed for the native replay
var verifReplayHashes map[string]uint64

type verifReplayState struct {
	mu       sync.Mutex
	loaded   bool
	vals     map[string]string
	counts   map[string]int
	Failed   []string
	Reached  []string
	AssumeKO bool
	Notes    []string
}

var verifRS verifReplayState

func verifResetReplay() {
	verifRS = verifReplayState{}
	verifClockFn = nil
	verifRandFn = nil
	verifMemStatsFn = nil
}

func (r *verifReplayState) load() {
	if r.loaded {
		return
	}
	r.loaded = true
	r.vals = map[string]string{}
	r.counts = map[string]int{}
	if p := os.Getenv("VERIF_REPLAY"); p != "" {
		b, err := os.ReadFile(p)
		if err != nil {
			panic(err)
		}
		var doc struct {
			Model  map[string]string `json:"model"`
			Hashes [][2]string       `json:"hashes"`
		}
		if err := json.Unmarshal(b, &doc); err != nil {
			panic(err)
		}
		r.vals = doc.Model
		verifReplayHashes = map[string]uint64{}
		for _, h := range doc.Hashes {
			key := make([]byte, len(h[0])/2)
			for i := range key {
				x, _ := strconv.ParseUint(h[0][2*i:2*i+2], 16, 8)
				key[i] = byte(x)
			}
			v, _ := strconv.ParseUint(h[1], 10, 64)
			verifReplayHashes[string(key)] = v
		}
	}
}

func (r *verifReplayState) next(name string) (string, bool) {
	r.mu.Lock()
	defer r.mu.Unlock()
	r.load()
	k := r.counts[name]
	r.counts[name] = k + 1
	v, ok := r.vals[fmt.Sprintf("%s#%d", name, k)]
	return v, ok
}

func verifParseInt(s string, bits int) uint64 {
	s = strings.TrimSpace(s)
	neg := false
	if strings.HasPrefix(s, "(- ") {
		neg = true
		s = strings.TrimSuffix(s[3:], ")")
	}
	var u uint64
	switch {
	case strings.HasPrefix(s, "#x"):
		u, _ = strconv.ParseUint(s[2:], 16, 64)
	case strings.HasPrefix(s, "#b"):
		u, _ = strconv.ParseUint(s[2:], 2, 64)
	default:
		u, _ = strconv.ParseUint(s, 10, 64)
	}
	if neg {
		u = -u
	}
	return u
}

func verifInt64(name string) int64 {
	if v, ok := verifRS.next(name); ok {
		return int64(verifParseInt(v, 64))
	}
	return 0
}

func verifUint64(name string) uint64 {
	if v, ok := verifRS.next(name); ok {
		return verifParseInt(v, 64)
	}
	return 0
}

func verifInt(name string) int { return int(verifInt64(name)) }

func verifByte(name string) byte {
	if v, ok := verifRS.next(name); ok {
		return byte(verifParseInt(v, 8))
	}
	return 0
}

func verifBool(name string) bool {
	if v, ok := verifRS.next(name); ok {
		return v == "true"
	}
	return false
}

// verifFloat: models come as SMT-LIB reals "(/ a b)", "(- x)", "1.5"
func verifFloat(name string) float64 {
	v, ok := verifRS.next(name)
	if !ok {
		return 0
	}
	return verifParseReal(v)
}

func verifParseReal(s string) float64 {
	s = strings.TrimSpace(s)
	if strings.HasPrefix(s, "(- ") {
		return -verifParseReal(strings.TrimSuffix(s[3:], ")"))
	}
	if strings.HasPrefix(s, "(/ ") {
		f := strings.Fields(strings.TrimSuffix(s[3:], ")"))
		if len(f) == 2 {
			return verifParseReal(f[0]) / verifParseReal(f[1])
		}
	}
	s = strings.TrimSuffix(s, "?")
	f, _ := strconv.ParseFloat(s, 64)
	return f
}

// verifChoice returns a value in [0,n); the executor forks over all of them.
func verifChoice(name string, n int) int {
	if v, ok := verifRS.next(name); ok {
		return int(verifParseInt(v, 8)) % n
	}
	return 0
}

type verifAssumeFailed struct{}

func verifAssume(c bool) {
	if !c {
		verifRS.AssumeKO = true
		panic(verifAssumeFailed{})
	}
}

func verifAssert(label string, c bool) {
	if !c {
		verifRS.mu.Lock()
		verifRS.Failed = append(verifRS.Failed, label)
		verifRS.mu.Unlock()
		if os.Getenv("VERIF_REPLAY") != "" {
			fmt.Printf("REPLAY-ASSERT-FAILED: %s\n", label) // printed at once: the order against a failing assumption matters
		}
	}
}

func verifReach(label string) {
	verifRS.mu.Lock()
	verifRS.Reached = append(verifRS.Reached, label)
	verifRS.mu.Unlock()
}

// verifClass names a class of inputs (used to tell known findings from new violations).
func verifClass(name string, c bool) {}

func verifNote(msg string, vals ...interface{}) {
	verifRS.mu.Lock()
	verifRS.Notes = append(verifRS.Notes, msg+" "+fmt.Sprint(vals...))
	verifRS.mu.Unlock()
}

// verifBackgroundDone is consulted natively by verifRunBackground to wait for goroutines
// the code under test started; the executor runs queued goroutines itself.
var verifBackgroundDone func() bool

// verifJanitorCycle: one cleanup cycle of the janitor goroutine(s) the constructors started. Natively
// the real janitors run (the harness configures a 1ms job interval) and get 60ms; the clock they read
// is the harness clock, so repeated cycles are idempotent.
func verifJanitorCycle() int {
	time.Sleep(60 * time.Millisecond)
	return -1
}

func verifRunBackground() {
	deadline := time.Now().Add(3 * time.Second)
	for verifBackgroundDone != nil && !verifBackgroundDone() && time.Now().Before(deadline) {
		time.Sleep(200 * time.Microsecond)
	}
	time.Sleep(2 * time.Millisecond)
}

func verifIte64(c bool, a, b int64) int64 {
	if c {
		return a
	}
	return b
}

func verifImplies(a, b bool) bool { return !a || b }
func verifAnd(a, b bool) bool     { return a && b }
func verifOr(a, b bool) bool      { return a || b }

// verifSymbolic is true under the executor and false natively.
func verifSymbolic() bool { return false }

func verifMapOrder(k int) {}

// exact real arithmetic for oracles (no float rounding terms under the executor)
func verifRealOfInt(x int64) float64    { return float64(x) }
func verifRealAdd(a, b float64) float64 { return a + b }
func verifRealSub(a, b float64) float64 { return a - b }
func verifRealMul(a, b float64) float64 { return a * b }
func verifRealDiv(a, b float64) float64 { return a / b }
func verifFloatIdeal()                  {}

// ---- concurrency harnesses (L2) -------------------------------------------------------

var (
	verifThreads  []func()
	verifFinalFn  func()
	verifAtomicMu sync.Mutex
)

// verifThread declares a thread of a concurrency harness; verifRunThreads starts them all.
func verifThread(name string, f func()) { verifThreads = append(verifThreads, f) }

// verifFinally declares a check that runs once every thread (and every goroutine they started) is done.
func verifFinally(f func()) { verifFinalFn = f }

func verifOption(name string) {}

// verifRunThreads: natively the threads are real goroutines (steered by verifSched when a
// replay schedule is loaded); under the executor each thread is explored in event mode and the
// schedule is an SMT variable.
func verifRunThreads() {
	var wg sync.WaitGroup
	ts := verifThreads
	verifThreads = nil
	for _, f := range ts {
		wg.Add(1)
		go func(f func()) {
			defer wg.Done()
			f()
		}(f)
	}
	wg.Wait()
	verifRunBackground()
	if verifFinalFn != nil {
		verifFinalFn()
		verifFinalFn = nil
	}
}

// verifAtomic runs f as one indivisible step.
func verifAtomic(f func()) {
	verifAtomicMu.Lock()
	defer verifAtomicMu.Unlock()
	f()
}

// verifSched marks a scheduling point of harness code (used to steer native replays).
func verifSched(label string) {}

// verifHash is the hash function harnesses use for their own bookkeeping: the real xxhash64
// natively (or the value the solver's model gave the uninterpreted hash, during a replay), the
// same (possibly uninterpreted) function as xxhash.Sum64 under the executor.
func verifHash(b []byte) uint64 {
	verifRS.mu.Lock()
	verifRS.load()
	verifRS.mu.Unlock()
	if h, ok := verifReplayHashes[string(b)]; ok {
		return h
	}
	return xxhash.Sum64(b)
}
