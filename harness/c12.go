package cache

import (
	"context"
)

// ---------------------------------------------------------------------------
// C12 — eviction fires only on limit breach, removes the right amount in strategy order
// ---------------------------------------------------------------------------

// what a harness variant explores: 0 trigger logic, 1 amount, 2 order
func verifC12(kind int, maxN int, aspect int) {
	st := verifNewStats()
	strategy := EvictMostExpired
	n := maxN
	limit := uint64(0)
	fracSet := false
	frac := 0.0
	heapLimit, sysLimit, heapRead, sysRead := uint64(0), uint64(0), uint64(0), uint64(0)
	needMode := 2
	switch aspect {
	case 0: // trigger: limits, readings and EvictionNeeded symbolic; 2 entries
		limit = uint64(verifChoice("countSoftLimit", n+2))
		heapLimit, sysLimit = verifUint64("heapInUseSoftLimit"), verifUint64("sysMemSoftLimit")
		heapRead, sysRead = verifUint64("heapInuseReading"), verifUint64("sysReading")
		needMode = verifChoice("evictionNeeded", 3) // 0: nil, 1: false, 2: true
		fracSet, frac = true, 0.5                   // a cycle that is triggered evicts visibly
	case 1: // amount: entry count, fraction, count limit
		n = verifChoice("entries", maxN+1)
		limit = uint64(verifChoice("countSoftLimit", n+2))
		fracSet = verifBool("evictFractionSet")
		if fracSet {
			frac = [...]float64{0.1, 0.25, 0.34, 0.5, 0.75, 1}[verifChoice("evictFraction", 6)]
		}
		needMode = verifChoice("evictionNeeded", 2) * 2
		// a memory soft limit breached in the same cycle (alone, or together with a count breach):
		// the count target still applies when the count limit is exceeded
		switch verifChoice("memoryBreach", 3) {
		case 1:
			heapLimit, heapRead = 1, 2
		case 2:
			sysLimit, sysRead = 1, 2
		}
	case 2: // order: all strategies, symbolic metrics
		strategy = EvictionStrategy(verifChoice("strategy", 3))
		fracSet, frac = true, [...]float64{0.34, 0.5, 0.75}[verifChoice("evictFraction", 3)]
	}
	verifMemStatsFn = func() (uint64, uint64) { return heapRead, sysRead }
	cfg := Config{Name: "inst", Stats: st, ExpirationJitter: -1, EvictionStrategy: strategy, CountSoftLimit: limit,
		EvictFraction: frac, HeapInUseSoftLimit: heapLimit, SysMemSoftLimit: sysLimit}
	if needMode > 0 {
		cfg.EvictionNeeded = func() bool { return needMode == 2 }
	}
	b := verifNewBackend(kind, cfg)
	b.trait.DeleteExpired = nil // expiry-based deletion is C11's subject
	verifInstallClock(verifT0, verifT1, true)

	metric := make([]int64, n)
	for i := 0; i < n; i++ {
		if aspect == 2 {
			metric[i] = verifInt64("metric")
		} else {
			metric[i] = int64(1000 + 10*((i*3)%7)) // distinct
		}
		if strategy == EvictMostExpired {
			verifAssume(metric[i] > 0) // ranking of never-expiring vs dated entries is not judged
			b.put([]byte(verifKeys[i]), 1+i, metric[i], 0)
		} else {
			b.put([]byte(verifKeys[i]), 1+i, 0, metric[i])
		}
	}
	b.cleanup()

	co := limit != 0 && uint64(n) > limit
	kept := 0
	var keptMask [8]bool
	for i := 0; i < n; i++ {
		_, ok := b.get([]byte(verifKeys[i]))
		keptMask[i] = ok
		if ok {
			kept++
		}
	}
	removed := n - kept
	verifAssert("Len agrees with the surviving entries", b.count() == kept)
	evictMetric := st.add[MetricEvict+"|name=inst"]
	memTriggered := verifOr(verifAnd(heapLimit != 0, heapRead > heapLimit), verifAnd(sysLimit != 0, sysRead > sysLimit))
	trigger := verifOr(co || needMode == 2, memTriggered)
	if !trigger {
		verifReach("no trigger")
		verifAssert("no entry is evicted unless a soft limit is exceeded or EvictionNeeded returns true", removed == 0 && evictMetric == 0)
		return
	}
	verifReach("eviction cycle")
	verifAssert("cache_evict metric equals removed entries", evictMetric == float64(removed))
	f0 := frac
	if !fracSet {
		f0 = 0.1
	}
	if co {
		verifReach("count breach")
		target := float64(limit) * (1 - f0)
		verifAssert("count breach: remaining count comes down to CountSoftLimit*(1-EvictFraction) within one entry",
			float64(kept) >= target-0.000001 && float64(kept) <= target+1.000001)
	} else {
		want := float64(n) * f0
		verifAssert("removes EvictFraction of the entries (truncated)", float64(removed) <= want+0.000001 && float64(removed) > want-1.000001)
	}
	for i := 0; i < n; i++ {
		for j := 0; j < n; j++ {
			if !keptMask[i] && keptMask[j] {
				verifAssert("every removed entry ranks no higher than every kept entry", metric[i] <= metric[j])
			}
		}
	}
}

func verifH_C12_ShardedMap_trigger()   { verifC12(0, 2, 0) }
func verifH_C12_SyncMap_trigger()      { verifC12(1, 2, 0) }
func verifH_C12_ShardedMapOf_trigger() { verifC12(2, 2, 0) }
func verifH_C12_ShardedMap_amount()    { verifC12(0, 5, 1) }
func verifH_C12_SyncMap_amount()       { verifC12(1, 5, 1) }
func verifH_C12_ShardedMapOf_amount()  { verifC12(2, 5, 1) }
func verifH_C12_ShardedMap_order()     { verifC12(0, 3, 2) }
func verifH_C12_SyncMap_order()        { verifC12(1, 3, 2) }
func verifH_C12_ShardedMapOf_order()   { verifC12(2, 3, 2) }
func verifH_C12_ShardedMap_order4()    { verifC12(0, 4, 2) }
func verifH_C12_SyncMap_order4()       { verifC12(1, 4, 2) }
func verifH_C12_ShardedMapOf_order4()  { verifC12(2, 4, 2) }

var _ = context.Background

// access histories: LRU/LFU bookkeeping by real reads, then one eviction of a single entry
func verifC12History(kind int, reads int) {
	strategy := EvictLeastRecentlyUsed
	if verifBool("lfu") {
		strategy = EvictLeastFrequentlyUsed
	}
	cfg := Config{Name: "inst", ExpirationJitter: -1, EvictionStrategy: strategy, EvictFraction: 0.34,
		EvictionNeeded: func() bool { return true }}
	b := verifNewBackend(kind, cfg)
	b.trait.DeleteExpired = nil
	clk := verifInstallClock(verifT0, verifT1, false)
	const n = 3
	for i := 0; i < n; i++ {
		b.put([]byte(verifKeys[i]), 1+i, 0, 0)
	}
	var lastServed, served [n]int64
	for r := 0; r < reads; r++ {
		k := verifChoice("readKey", n)
		_, err := b.read(context.Background(), []byte(verifKeys[k]))
		verifAssert("read of a stored never-expiring entry succeeds", err == nil)
		lastServed[k] = clk.last
		served[k]++
	}
	b.cleanup()
	removed := 0
	for i := 0; i < n; i++ {
		if _, ok := b.get([]byte(verifKeys[i])); !ok {
			removed++
			for j := 0; j < n; j++ {
				if _, okj := b.get([]byte(verifKeys[j])); okj {
					if strategy == EvictLeastRecentlyUsed {
						verifAssert("evicted entry was served no later than every kept entry", lastServed[i] <= lastServed[j])
					} else {
						verifAssert("evicted entry was served no more often than every kept entry", served[i] <= served[j])
					}
				}
			}
		}
	}
	verifAssert("one of three entries evicted for fraction 0.34", removed == 1)
}

// four reads of three entries: every entry can have been served and one of them served again
func verifH_C12_ShardedMap_history()   { verifC12History(0, 4) }
func verifH_C12_SyncMap_history()      { verifC12History(1, 4) }
func verifH_C12_ShardedMapOf_history() { verifC12History(2, 4) }
