package cache

import (
	"context"
	"errors"
	"time"
)

// ---------------------------------------------------------------------------
// C03 — a lone Get follows the documented stale/failure decision table
// (also the sequential part of C02: nothing is fabricated)
// ---------------------------------------------------------------------------

type verifC03In struct {
	present, failCached, errorsOff, syncUpdate, failHard, builderOK bool
	e, now, maxStale                                                int64
}

func verifC03Inputs() verifC03In {
	var in verifC03In
	in.present = verifBool("entryPresent")
	in.e = verifInt64("E")
	in.failCached = verifBool("failureCached")
	in.errorsOff = verifBool("failedUpdateTTLOff")
	in.syncUpdate = verifBool("syncUpdate")
	in.failHard = verifBool("failHard")
	in.builderOK = verifBool("builderOK")
	if verifBool("maxStalenessSet") {
		in.maxStale = verifInt64("maxStaleness")
		verifAssume(in.maxStale > 0 && in.maxStale < int64(1)<<59)
	}
	verifRandFn = func() float64 { return 0.5 }
	clk := verifInstallClock(verifT0, verifT1, true)
	in.now = clk.last
	verifAssume(in.e >= 0 && in.e <= verifT1)
	if in.errorsOff {
		verifAssume(!in.failCached)
	}
	return in
}

const (
	verifCachedVal = 111
	verifBuiltVal  = 222
)

// the decision table, transcribed from README "Failover Cache" bullets 2-7 and the
// MaxStaleness / FailHard comments of FailoverConfig
type verifC03Want struct {
	fromCache, fromBuild, cachedErr, builderErr bool
	builds                                      int
	buildBeforeReturn                           bool
}

func verifRefDecision(in verifC03In) verifC03Want {
	expired := in.present && in.e != 0 && in.e < in.now
	fresh := in.present && !expired
	staleOK := expired && (in.maxStale == 0 || in.now-in.e < in.maxStale)
	var w verifC03Want
	switch {
	case fresh:
		w.fromCache = true
	case in.failCached:
		w.cachedErr = true
	case staleOK && !in.syncUpdate:
		w.fromCache, w.builds = true, 1
	default:
		w.builds, w.buildBeforeReturn = 1, true
		switch {
		case in.builderOK:
			w.fromBuild = true
		case expired && !in.failHard:
			w.fromCache = true // previously cached value served on failure, regardless of MaxStaleness
		default:
			w.builderErr = true
		}
	}
	verifClass("too_stale_and_build_fails_softly", expired && !staleOK && !in.builderOK && !in.failHard && !in.failCached)
	verifClass("failure_cached", in.failCached)
	return w
}

func verifC03Check(in verifC03In, w verifC03Want, v interface{}, err error, errCached, errBuild error, builds int, builtBeforeReturn bool, after verifEntryView, afterOK bool, locks int) {
	switch {
	case w.fromCache:
		verifReach("expect cached value")
		verifAssert("cached value served with nil error", err == nil && v == verifCachedVal)
	case w.fromBuild:
		verifReach("expect built value")
		verifAssert("built value served with nil error", err == nil && v == verifBuiltVal)
	case w.cachedErr:
		verifReach("expect cached failure")
		verifAssert("cached failure served", err != nil && errors.Is(err, errCached))
	case w.builderErr:
		verifReach("expect builder error")
		verifAssert("builder error served", err != nil && errors.Is(err, errBuild))
	}
	verifAssert("nothing fabricated: a nil error comes with the cached or the built value", err != nil || v == verifCachedVal || v == verifBuiltVal)
	verifAssert("builder invocation count", builds == w.builds)
	if w.builds == 1 {
		verifAssert("build runs before Get returns exactly when it must block", builtBeforeReturn == w.buildBeforeReturn)
		if in.builderOK {
			verifAssert("after quiescence the backend holds the built value", afterOK && after.val == verifBuiltVal)
		} else if in.present {
			verifAssert("after a failed build the previously cached value is still stored", afterOK && after.val == verifCachedVal)
		}
	} else if in.present {
		verifAssert("without a build the backend keeps the cached value", afterOK && after.val == verifCachedVal)
	}
	verifAssert("no key lock remains", locks == 0)
}

func verifC03(kind int) {
	in := verifC03Inputs()
	b := verifNewBackend(kind, Config{ExpirationJitter: -1})
	key := []byte("k")
	if in.present {
		b.put(key, verifCachedVal, in.e, 0)
	}
	errCached, errBuild := errors.New("cached failure"), errors.New("build failure")
	w := verifRefDecision(in)
	fut := time.Duration(0)
	if in.errorsOff {
		fut = -1
	}
	builds, returned, builtBeforeReturn := 0, false, false
	ctx := context.Background()

	if !b.generic {
		f := NewFailover(FailoverConfig{Backend: b.rw, SyncUpdate: in.syncUpdate, FailHard: in.failHard,
			MaxStaleness: time.Duration(in.maxStale), FailedUpdateTTL: fut}.Use)
		if in.failCached {
			_ = f.Errors.Write(ctx, key, errCached)
		}
		v, err := f.Get(ctx, key, func(ctx context.Context) (interface{}, error) {
			builds++
			builtBeforeReturn = !returned
			if in.builderOK {
				return verifBuiltVal, nil
			}
			return nil, errBuild
		})
		returned = true
		verifBackgroundDone = func() bool { f.lock.Lock(); defer f.lock.Unlock(); return len(f.keyLocks) == 0 }
		verifRunBackground()
		after, afterOK := b.get(key)
		verifC03Check(in, w, v, err, errCached, errBuild, builds, builtBeforeReturn, after, afterOK, len(f.keyLocks))
		return
	}
	f := NewFailoverOf[int](FailoverConfigOf[int]{Backend: b.rwOf, SyncUpdate: in.syncUpdate, FailHard: in.failHard,
		MaxStaleness: time.Duration(in.maxStale), FailedUpdateTTL: fut}.Use)
	if in.failCached {
		_ = f.Errors.Write(ctx, key, errCached)
	}
	v, err := f.Get(ctx, key, func(ctx context.Context) (int, error) {
		builds++
		builtBeforeReturn = !returned
		if in.builderOK {
			return verifBuiltVal, nil
		}
		return 0, errBuild
	})
	returned = true
	verifBackgroundDone = func() bool { f.lock.Lock(); defer f.lock.Unlock(); return len(f.keyLocks) == 0 }
	verifRunBackground()
	after, afterOK := b.get(key)
	verifC03Check(in, w, v, err, errCached, errBuild, builds, builtBeforeReturn, after, afterOK, len(f.keyLocks))
}

func verifH_C03_ShardedMap()   { verifC03(0) }
func verifH_C03_SyncMap()      { verifC03(1) }
func verifH_C03_ShardedMapOf() { verifC03(2) }
