package cache

import (
	"context"
	"errors"
	"time"
)

// ---------------------------------------------------------------------------
// C05 (failure suppression, sequential): after a builder failure the error is served from the
// failure cache and the builder is not invoked again until FailedUpdateTTL (minus jitter) has
// elapsed; with FailedUpdateTTL=-1 failures are not cached.
// Integer mode; float64 arithmetic of the jitter is idealised (see C10).
// ---------------------------------------------------------------------------

func verifC05(generic bool) {
	verifFloatIdeal()
	mode := verifChoice("failedUpdateTTL", 3) // 0: default (20s), 1: custom, 2: disabled (-1)
	var fut int64
	eff := int64(20 * time.Second)
	switch mode {
	case 1:
		// a list of constants keeps the jitter product (ttl * rand) linear for the solver: with both factors
		// symbolic the nonlinear query occasionally ran into the solver timeout
		fut = [...]int64{1, 1000, 3 * int64(time.Second), int64(time.Hour), int64(1) << 50}[verifChoice("customFailedUpdateTTL", 5)]
		eff = fut
	case 2:
		fut = -1
	}
	r := verifFloat("rand")
	verifAssume(r >= 0 && r < 1)
	verifRandFn = func() float64 { return r }
	t1 := verifInt64("t1")
	verifAssume(t1 >= verifT0 && t1 <= verifT1)
	now := t1
	verifClockFn = func() int64 { return now }
	rw := &verifFaultyRW{errFault: errors.New("backend fault")} // no faults
	// the key is either absent or holds a stale (still servable) value whose short-lived refreshed
	// copy has expired again by the time of the second Get (UpdateTTL shorter than FailedUpdateTTL)
	staleEntry := verifBool("staleEntry")
	syncUpdate := verifBool("syncUpdate")
	if staleEntry {
		rw.state, rw.val, rw.expiredAt = 2, verifCachedVal, t1-10
	}
	errBuild := errors.New("build failure")
	builds := 0
	// the failing build may be one whose caller gave up: the builder cancels the caller's context before
	// it returns its error (a timeout or cancellation failure is a builder failure like any other)
	callerGaveUp := verifBool("callerCtxCancelledDuringBuild")
	cancelled := false
	var ctx context.Context = context.Background()
	if callerGaveUp {
		ctx = verifCallerCtx{Context: ctx, cancelled: &cancelled, done: nil, noDeadline: true}
	}
	var err1, err2 error
	get := func() error { return nil }
	if !generic {
		f := NewFailover(FailoverConfig{Backend: verifFaultyBackend{rw}, FailedUpdateTTL: time.Duration(fut), SyncUpdate: syncUpdate}.Use)
		verifBackgroundDone = func() bool { f.lock.Lock(); defer f.lock.Unlock(); return len(f.keyLocks) == 0 }
		get = func() error {
			_, err := f.Get(ctx, []byte("k"), func(ctx context.Context) (interface{}, error) {
				builds++
				if builds == 1 {
					cancelled = callerGaveUp
					return nil, errBuild
				}
				return verifBuiltVal, nil
			})
			return err
		}
	} else {
		f := NewFailoverOf[int](FailoverConfigOf[int]{Backend: verifFaultyBackendOf{rw}, FailedUpdateTTL: time.Duration(fut), SyncUpdate: syncUpdate}.Use)
		verifBackgroundDone = func() bool { f.lock.Lock(); defer f.lock.Unlock(); return len(f.keyLocks) == 0 }
		get = func() error {
			_, err := f.Get(ctx, []byte("k"), func(ctx context.Context) (int, error) {
				builds++
				if builds == 1 {
					cancelled = callerGaveUp
					return 0, errBuild
				}
				return verifBuiltVal, nil
			})
			return err
		}
	}
	err1 = get()
	verifRunBackground()
	if staleEntry {
		verifReach("stale entry")
		verifAssert("first Get serves the stale value and builds once", err1 == nil && builds == 1)
		rw.state, rw.expiredAt = 2, t1-10 // the refreshed copy has expired again
	} else {
		verifAssert("first Get returns the builder error", err1 != nil && errors.Is(err1, errBuild) && builds == 1)
	}
	t2 := verifInt64("t2")
	verifAssume(t2 >= t1 && t2 <= verifT1)
	now = t2
	cancelled = false // the next Get comes with a live context
	err2 = get()
	verifRunBackground()
	if mode == 2 {
		verifReach("failure cache disabled")
		verifAssert("with FailedUpdateTTL=-1 the next Get invokes the builder again", builds == 2 && err2 == nil)
		return
	}
	d := verifRealOfInt(t2 - t1)
	lo := verifRealSub(verifRealMul(verifRealOfInt(eff), 0.95), 1)
	hi := verifRealAdd(verifRealMul(verifRealOfInt(eff), 1.05), 1)
	switch {
	case d < lo:
		verifReach("inside the failure window")
		verifAssert("cached failure served, builder not invoked again", builds == 1 && err2 != nil && errors.Is(err2, errBuild))
	case d > hi:
		verifReach("after the failure window")
		verifAssert("after FailedUpdateTTL (plus jitter) the builder is invoked again", builds == 2 && err2 == nil)
	default:
		verifReach("jitter window (not judged)")
	}
}

func verifH_C05_Failover()   { verifC05(false) }
func verifH_C05_FailoverOf() { verifC05(true) }

// The failure cache is not subject to the backend's eviction limits: with soft limits configured for
// the backend (BackendConfig), failures of two keys stay remembered across cleanup cycles of every
// cache instance the Failover owns, and are served inside the failure window without a rebuild.
func verifC05Cleanup(generic bool) {
	verifFloatIdeal()
	clk := verifInstallClock(verifT0, verifT1, true)
	verifRandFn = func() float64 { return 0.5 }
	heapRead, sysRead := verifUint64("heapInuseReading"), verifUint64("sysReading")
	verifMemStatsFn = func() (uint64, uint64) { return heapRead, sysRead }
	bc := Config{ExpirationJitter: -1, EvictFraction: 0.5}
	switch verifChoice("backendLimit", 3) {
	case 0:
		bc.CountSoftLimit = 1
	case 1:
		bc.HeapInUseSoftLimit = 1 + verifUint64("heapInUseSoftLimit")
	default:
		bc.SysMemSoftLimit = 1 + verifUint64("sysMemSoftLimit")
	}
	errBuild := errors.New("build failure")
	builds := 0
	ctx := context.Background()
	keys := [2]string{"k1", "k2"}
	get := func(k string) error { return nil }
	cleanup := func() {}
	if !generic {
		f := NewFailover(FailoverConfig{BackendConfig: bc}.Use)
		get = func(k string) error {
			_, err := f.Get(ctx, []byte(k), func(ctx context.Context) (interface{}, error) {
				builds++
				return nil, errBuild
			})
			return err
		}
		cleanup = func() {
			f.Errors.t.invokeCleanup()
			f.backend.(*ShardedMap).t.invokeCleanup()
		}
	} else {
		f := NewFailoverOf[int](FailoverConfigOf[int]{BackendConfig: bc}.Use)
		get = func(k string) error {
			_, err := f.Get(ctx, []byte(k), func(ctx context.Context) (int, error) {
				builds++
				return 0, errBuild
			})
			return err
		}
		cleanup = func() {
			f.Errors.t.invokeCleanup()
			f.backend.(*ShardedMapOf[int]).t.invokeCleanup()
		}
	}
	for _, k := range keys {
		err := get(k)
		verifAssert("first Get of each key returns the builder error", err != nil && errors.Is(err, errBuild))
	}
	verifAssert("one build per key", builds == 2)
	cleanup()
	cleanup()
	_ = clk
	for _, k := range keys {
		err := get(k)
		verifReach("failure cache after cleanup cycles")
		verifAssert("remembered failure survives cleanup cycles and is served without a rebuild", err != nil && errors.Is(err, errBuild) && builds == 2)
	}
}

func verifH_C05_Cleanup()   { verifC05Cleanup(false) }
func verifH_C05_CleanupOf() { verifC05Cleanup(true) }
