package cache

import (
	"context"
	"errors"
	"time"
)

// ---------------------------------------------------------------------------
// C07 / C09 — backends behave as a map with per-entry expiry; keys are isolated even
// when their hashes collide.  One inductive step: arbitrary valid pre-state, one operation
// with symbolic arguments, result and post-state compared with a reference model.
// ---------------------------------------------------------------------------

type verifRefEntry struct {
	key     []byte
	present bool
	val     interface{}
	e       int64
}

func verifSymKey(name string, n int) []byte {
	k := make([]byte, n)
	for i := range k {
		k[i] = verifByte(name)
	}
	return k
}

func verifRefFind(st []verifRefEntry, key []byte) int {
	for i := range st {
		if st[i].present && string(st[i].key) == string(key) {
			return i
		}
	}
	return -1
}

func verifValEq(a, b interface{}) bool { return a == b }

// verifCheckRead compares one Read result with the reference.
func verifCheckRead(b *verifBackend, st []verifRefEntry, ctx context.Context, key []byte, now int64, collide bool) {
	v, err := b.read(ctx, key)
	i := verifRefFind(st, key)
	switch {
	case SkipRead(ctx):
		verifReach("read: skip")
		verifAssert("read under SkipRead reports ErrNotFound", err != nil && errors.Is(err, ErrNotFound) && !errors.Is(err, ErrExpired))
	case i < 0:
		verifReach("read: missing")
		verifAssert("read of missing key reports ErrNotFound", err != nil && errors.Is(err, ErrNotFound) && !errors.Is(err, ErrExpired))
	case st[i].e != 0 && st[i].e < now:
		verifReach("read: expired")
		verifAssert("read of expired entry reports ErrExpired", err != nil && errors.Is(err, ErrExpired) && !errors.Is(err, ErrNotFound))
		if b.generic {
			var ee ErrWithExpiredItemOf[int]
			ok := errors.As(err, &ee)
			verifAssert("expired error carries the stale value and its expiry", ok && verifValEq(ee.Value(), st[i].val) && ee.ExpiredAt().UnixNano() == st[i].e)
		} else {
			var ee ErrWithExpiredItem
			ok := errors.As(err, &ee)
			verifAssert("expired error carries the stale value and its expiry", ok && verifValEq(ee.Value(), st[i].val) && ee.ExpiredAt().UnixNano() == st[i].e)
		}
	default:
		verifReach("read: hit")
		verifAssert("read returns the last written value", err == nil && verifValEq(v, st[i].val))
	}
}

// verifCheckState compares the backend content with the reference for every key of interest.
func verifCheckState(b *verifBackend, st []verifRefEntry, extra []byte, collide bool) {
	n := 0
	for i := range st {
		en, ok := b.get(st[i].key)
		if st[i].present {
			n++
			verifAssert("post-state: stored entry present with its own value and expiry", ok && en.key == string(st[i].key) && verifValEq(en.val, st[i].val) && en.e == st[i].e)
		} else if verifRefFind(st, st[i].key) < 0 {
			verifAssert("post-state: absent key has no entry", !ok)
		}
	}
	if verifRefFind(st, extra) < 0 {
		_, ok := b.get(extra)
		verifAssert("post-state: absent key has no entry", !ok)
	}
	verifAssert("post-state: Len agrees with the model", b.count() == n)
}

func verifC07(kind int, collide bool, ops []int) {
	// --- configuration
	cfgTTL := verifInt64("cfgTimeToLive")
	verifAssume(cfgTTL != 0)
	b := verifNewBackend(kind, Config{TimeToLive: time.Duration(cfgTTL), ExpirationJitter: -1})
	clk := verifInstallClock(verifT0, verifT1, true)
	now := clk.last

	op := ops[verifChoice("op", len(ops))]
	needsKey := op == 0 || op == 1 || op == 2 || op == 7 || op == 8
	if (op == 7 || op == 8) && b.load == nil {
		return
	}

	// --- alphabet: k0 of length 0 or 1, k1 of length 1, k2 of length 2, in buckets 5,5,9
	l0 := verifChoice("len_k0", 2)
	st := []verifRefEntry{{key: verifSymKey("k0", l0)}, {key: verifSymKey("k1", 1)}, {key: verifSymKey("k2", 2)}}
	if l0 == 1 {
		verifAssume(st[0].key[0] != st[1].key[0])
	}
	// the operation's key: one of the alphabet or a further key
	opKey := []byte{}
	kc := 0
	if needsKey {
		kc = verifChoice("opKey", 4)
		if kc < 3 {
			opKey = verifCopyKey(st[kc].key)
		} else {
			opKey = verifSymKey("k3", verifChoice("len_k3", 3))
		}
	}
	if kind != 1 {
		hs := [3]uint64{verifHash(st[0].key), verifHash(st[1].key), verifHash(st[2].key)}
		verifAssume(hs[0]%shards == 5 && hs[1]%shards == 5 && hs[2]%shards == 9)
		ho := hs[0]
		if needsKey {
			ho = verifHash(opKey)
			verifAssume(ho%shards == 5 || ho%shards == 9)
		}
		if collide {
			// C09: an arbitrary hash function — distinct keys may share a hash
			verifClass("hash_collision", verifOr(hs[0] == hs[1], verifOr(verifAnd(ho == hs[0], string(opKey) != string(st[0].key)), verifOr(verifAnd(ho == hs[1], string(opKey) != string(st[1].key)), verifAnd(ho == hs[2], string(opKey) != string(st[2].key))))))
		} else {
			verifAssume(hs[0] != hs[1])
			if needsKey && kc == 3 {
				verifAssume(verifOr(string(opKey) == string(st[0].key), ho != hs[0]))
				verifAssume(verifOr(string(opKey) == string(st[1].key), ho != hs[1]))
				verifAssume(verifOr(string(opKey) == string(st[2].key), ho != hs[2]))
			}
		}
	}
	// --- arbitrary pre-state (only entry 0 may hold a nil value)
	for i := range st {
		st[i].present = verifBool("present")
		st[i].e = verifInt64("E")
		if i > 0 || b.generic || !verifBool("nilValue") {
			st[i].val = verifInt("val")
		}
	}
	if collide && kind != 1 {
		// representation invariant under collisions: one entry per hash slot
		if verifHash(st[0].key) == verifHash(st[1].key) {
			verifAssume(!(st[0].present && st[1].present))
		}
	}
	for i := range st {
		if st[i].present {
			b.put(st[i].key, st[i].val, st[i].e, 0)
		}
	}

	// --- context options
	ctx := context.Background()
	ttlC := int64(0)
	if op == 1 && verifBool("withTTL") {
		ttlC = verifInt64("ctxTTL")
		ctx = WithTTL(ctx, time.Duration(ttlC), false)
	}
	// SkipRead concerns reads only: a Write or Delete made with such a context behaves as without it
	// (the hash-collision variant C09 keeps the context dimension of Read only: collisions and context flags
	// are independent, and the product doubles its run time)
	if (op == 0 || (!collide && (op == 1 || op == 2))) && verifBool("withSkipRead") {
		ctx = WithSkipRead(ctx)
	}
	if !collide && op == 2 && verifBool("deleteWithTTLContext") {
		ctx = WithTTL(ctx, time.Duration(verifInt64("ctxTTL")), false)
	}
	var newVal interface{}
	if op == 1 || op == 8 {
		if b.generic || !verifBool("nilNewValue") {
			newVal = verifInt("newVal")
		}
	}
	wantE := func(ttl int64) int64 {
		if ttl == 0 {
			if cfgTTL == int64(UnlimitedTTL) {
				return 0
			}
			ttl = cfgTTL
		}
		return now + ttl
	}
	refWrite := func(e int64) {
		i := verifRefFind(st, opKey)
		if i < 0 {
			if kc < 3 {
				i = kc
			} else {
				st = append(st, verifRefEntry{key: verifCopyKey(opKey)})
				i = len(st) - 1
			}
			if collide && kind != 1 {
				// the new entry takes over the hash slot of a colliding key
				for j := range st {
					if j != i && st[j].present && verifHash(st[j].key) == verifHash(opKey) {
						st[j].present = false
					}
				}
			}
		}
		st[i].present, st[i].val, st[i].e = true, newVal, e
	}

	switch op {
	case 0:
		verifReach("op: Read")
		verifCheckRead(b, st, ctx, opKey, now, collide)
	case 1:
		verifReach("op: Write")
		err := b.write(ctx, opKey, newVal)
		verifAssert("write succeeds", err == nil)
		refWrite(wantE(ttlC))
		opKey2 := verifCopyKey(opKey)
		if len(opKey) > 0 {
			opKey[0] ^= verifByte("scribble") // the caller may reuse its buffer afterwards (C09)
		}
		opKey = opKey2
	case 2:
		verifReach("op: Delete")
		err := b.del.Delete(ctx, opKey)
		i := verifRefFind(st, opKey)
		if i >= 0 {
			verifAssert("delete of a stored key succeeds", err == nil)
			st[i].present = false
		} else {
			verifClass("delete_missing", true)
			verifAssert("delete of a missing key reports ErrNotFound", err != nil && errors.Is(err, ErrNotFound))
		}
	case 3:
		verifReach("op: ExpireAll")
		b.expAll(ctx)
		for i := range st {
			if st[i].present {
				st[i].e = now
			}
		}
	case 4:
		verifReach("op: DeleteAll")
		b.delAll(ctx)
		for i := range st {
			st[i].present = false
		}
	case 5:
		verifReach("op: Len")
		n := 0
		for i := range st {
			if st[i].present {
				n++
			}
		}
		verifAssert("Len counts the stored entries", b.count() == n)
	case 6:
		verifReach("op: Walk")
		seen := make([]int, len(st))
		bad := false
		cnt, err := b.walk(func(en verifEntryView) {
			i := verifRefFind(st, []byte(en.key))
			if i < 0 || !verifValEq(en.val, st[i].val) || en.e != st[i].e {
				bad = true
				return
			}
			seen[i]++
		})
		verifAssert("walk reports only stored entries with their value and expiry", err == nil && !bad)
		n := 0
		for i := range st {
			if st[i].present {
				n++
				verifAssert("walk visits every stored entry exactly once", seen[i] == 1)
			}
		}
		verifAssert("walk returns the number of entries", cnt == n)
	case 7:
		verifReach("op: Load")
		v, ok := b.load(opKey)
		i := verifRefFind(st, opKey)
		fresh := i >= 0 && !(st[i].e != 0 && st[i].e < now)
		verifAssert("Load reports fresh values only", ok == fresh && (!ok || verifValEq(v, st[i].val)))
	case 8:
		verifReach("op: Store")
		b.store(opKey, newVal)
		refWrite(wantE(0))
	}
	verifCheckState(b, st, opKey, collide)
}

var (
	verifOpsKeyed = []int{0, 1, 2}
	verifOpsBatch = []int{3, 4, 5, 6}
	verifOpsLS    = []int{7, 8}
)

func verifH_C07_ShardedMap_keyed()   { verifC07(0, false, verifOpsKeyed) }
func verifH_C07_ShardedMap_batch()   { verifC07(0, false, verifOpsBatch) }
func verifH_C07_ShardedMap_ls()      { verifC07(0, false, verifOpsLS) }
func verifH_C07_SyncMap_keyed()      { verifC07(1, false, verifOpsKeyed) }
func verifH_C07_SyncMap_batch()      { verifC07(1, false, verifOpsBatch) }
func verifH_C07_ShardedMapOf_keyed() { verifC07(2, false, verifOpsKeyed) }
func verifH_C07_ShardedMapOf_batch() { verifC07(2, false, verifOpsBatch) }
func verifH_C07_ShardedMapOf_ls()    { verifC07(2, false, verifOpsLS) }
func verifH_C09_ShardedMap_keyed()   { verifC07(0, true, verifOpsKeyed) }
func verifH_C09_ShardedMap_batch()   { verifC07(0, true, verifOpsBatch) }
func verifH_C09_ShardedMap_ls()      { verifC07(0, true, verifOpsLS) }
func verifH_C09_ShardedMapOf_batch() { verifC07(2, true, verifOpsBatch) }
func verifH_C09_ShardedMapOf_ls()    { verifC07(2, true, verifOpsLS) }
func verifH_C09_ShardedMapOf_keyed() { verifC07(2, true, verifOpsKeyed) }
