package cache

import (
	"context"
	"errors"
	"time"
)

// ---------------------------------------------------------------------------
// C10 — every entry's expiry lies within the documented TTL bounds
// ---------------------------------------------------------------------------

const verifTTLBound = int64(1) << 60 // |T| < 2^60 ns (36 years)

func verifAbsF(x float64) float64 {
	if x < 0 {
		return verifRealSub(0, x)
	}
	return x
}

// kernel: Trait.TTL(ctx) against its contract. Integer mode (mathematical integers with
// no-overflow side conditions) + reals with explicit rounding terms for float64 operations.
func verifH_C10_TTLKernel() {
	if verifFloatIdealised {
		verifFloatIdeal()
	}
	ctxTTL := verifInt64("ctxTTL")
	cfgTTL := verifInt64("cfgTTL")
	verifAssume(ctxTTL > -verifTTLBound && ctxTTL < verifTTLBound && cfgTTL > -verifTTLBound && cfgTTL < verifTTLBound && cfgTTL != 0)
	jitterOn := verifBool("jitterOn")
	j := -1.0
	if jitterOn {
		if verifJitterSymbolic && verifBool("jitterSymbolic") {
			j = verifFloat("jitter")
			verifAssume(j > 0 && j <= 1)
		} else {
			j = [...]float64{0, 0.05, 0.1, 0.25, 0.5, 1}[verifChoice("jitterConst", 6)] // 0 selects the default 0.1
		}
	}
	r := verifFloat("rand")
	verifAssume(r >= 0 && r < 1)
	verifRandFn = func() float64 { return r }

	if j == 0 {
		j = 0.1 // NewTrait's default
	}
	t := &Trait{Config: Config{TimeToLive: time.Duration(cfgTTL), ExpirationJitter: j}}
	ctx := context.Background()
	if verifBool("withCtxTTL") {
		ctx = WithTTL(ctx, time.Duration(ctxTTL), false)
	} else {
		ctxTTL = 0
	}
	if verifRealOfInt(ctxTTL) != 0 {
		verifAssume(ctxTTL >= 1 || ctxTTL <= -1) // integers (needed only when integers are relaxed to reals)
	}
	verifAssume(cfgTTL >= 1 || cfgTTL <= -1)
	got := int64(t.TTL(ctx))

	unlimited := cfgTTL == int64(UnlimitedTTL)
	T := ctxTTL
	if T == 0 && !unlimited {
		T = cfgTTL
	}
	switch {
	case T == 0:
		verifReach("never expires")
		verifAssert("no context TTL and UnlimitedTTL give ttl 0 (never expires)", got == 0)
	case !jitterOn:
		verifReach("jitter disabled")
		verifAssert("without jitter the effective TTL is used exactly", got == T)
	default:
		verifReach("jitter enabled")
		// |got - T| <= |T|*J/2 * (1+2^-50) + 1ns   (float rounding slack, then truncation)
		dev := verifAbsF(verifRealSub(verifRealOfInt(got), verifRealOfInt(T)))
		half := verifRealMul(verifRealMul(verifAbsF(verifRealOfInt(T)), j), 0.5)
		bound := verifRealAdd(verifRealMul(half, 1.000000000000001), 1)
		verifAssert("jittered TTL within T*(1 +- J/2)", dev <= bound)
		verifAssert("jitter never flips the sign of the TTL", (T > 0) == (got >= 0) || got == 0)
	}
	if unlimited && got != 0 {
		verifAssert("expirationsSet is bumped when a dated entry enters an UnlimitedTTL cache", t.expirationsSet == 1)
	} else {
		verifAssert("expirationsSet untouched otherwise", t.expirationsSet == 0)
	}
}

// around the kernel: Write computes E from the TTL, Read/Walk/ErrExpired agree on it.
func verifC10Around(kind int) {
	// TTLs up to 2^62 ns in magnitude: with the clock in [2^60,2^62) the expiry instant may lie before
	// 1970 (negative), still without overflow
	const bound = int64(1) << 62
	cfgTTL := verifInt64("cfgTTL")
	verifAssume(cfgTTL > -bound && cfgTTL < bound && cfgTTL != 0)
	// any eviction strategy (LRU/LFU keep usage counters per entry), and the key may already hold an entry with
	// an expiry of its own: the new write's expiry is that of the new write
	strategy := EvictionStrategy(verifChoice("strategy", 3))
	b := verifNewBackend(kind, Config{TimeToLive: time.Duration(cfgTTL), ExpirationJitter: -1, EvictionStrategy: strategy})
	clk := verifInstallClock(verifT0, verifT1, false)
	if verifBool("overwritesAnEntry") {
		b.put([]byte("k"), 3, verifInt64("oldE"), verifInt64("oldC"))
	}
	ctx := context.Background()
	ctxTTL := int64(0)
	if verifBool("withCtxTTL") {
		ctxTTL = verifInt64("ctxTTL")
		verifAssume(ctxTTL > -bound && ctxTTL < bound)
		ctx = WithTTL(ctx, time.Duration(ctxTTL), false)
	}
	key := []byte("k")
	before := clk.last
	_ = b.write(ctx, key, 7)
	after := clk.last
	T := ctxTTL
	if T == 0 && cfgTTL != int64(UnlimitedTTL) {
		T = cfgTTL
	}
	en, ok := b.get(key)
	verifAssert("written entry exists", ok)
	if T == 0 {
		verifReach("never expires")
		verifAssert("entry without TTL never expires (E==0)", en.e == 0)
	} else {
		verifReach("dated")
		verifAssert("expiry = write instant + effective TTL", en.e >= before+T && en.e <= after+T)
	}
	// read at a later instant
	rnow := clk.advance()
	clk.frozen = true
	v, err := b.read(context.Background(), key)
	if en.e == 0 || rnow <= en.e {
		verifReach("read before expiry")
		verifAssert("read before the expiry instant returns the value", err == nil && v == 7)
	} else {
		verifReach("read after expiry")
		verifAssert("read after the expiry instant returns ErrExpired", err != nil && errors.Is(err, ErrExpired))
		var at int64
		if b.generic {
			var ee ErrWithExpiredItemOf[int]
			if errors.As(err, &ee) {
				at = ee.ExpiredAt().UnixNano()
			}
		} else {
			var ee ErrWithExpiredItem
			if errors.As(err, &ee) {
				at = ee.ExpiredAt().UnixNano()
			}
		}
		var walked int64
		_, _ = b.walk(func(w verifEntryView) { walked = w.e })
		verifAssert("ExpiredAt equals the instant Walk reports", at == en.e && walked == en.e)
	}
}

func verifH_C10_ShardedMap()   { verifC10Around(0) }
func verifH_C10_SyncMap()      { verifC10Around(1) }
func verifH_C10_ShardedMapOf() { verifC10Around(2) }

// the fully symbolic jitter factor makes the kernel cubic; it is explored only by the
// thorough harness (and reported inconclusive if the solver gives up)
var verifJitterSymbolic = false

func verifH_C10_TTLKernelSymJ() { verifJitterSymbolic = true; verifH_C10_TTLKernel() }

var verifFloatIdealised = false

func verifH_C10_TTLKernelIdeal() { verifFloatIdealised = true; verifH_C10_TTLKernel() }
func verifH_C10_TTLKernelIdealSymJ() {
	verifFloatIdealised = true
	verifJitterSymbolic = true
	verifH_C10_TTLKernel()
}
