package cache

import (
	"context"
	"errors"
	"time"
)

// ---------------------------------------------------------------------------
// C17 — Invalidator runs all callbacks, at most once per SkipInterval (sequential part)
// ---------------------------------------------------------------------------

type verifCtxTag struct{}

func verifC17(calls int) {
	skip := verifInt64("skipInterval")
	m := verifChoice("callbacks", 4) // 0 means a nil slice
	inv := &Invalidator{SkipInterval: time.Duration(skip)}
	type rec struct{ call, cb int }
	var log []rec
	cur := 0
	ctxOK := true
	// the caller's context may already be cancelled when Invalidate is called, or be cancelled by the first
	// callback: an accepted invalidation still runs every callback
	cancelMode := verifChoice("callerCtx", 3) // 0 live, 1 cancelled before the call, 2 cancelled by the first callback
	cancelled := false
	for j := 0; j < m; j++ {
		j := j
		inv.Callbacks = append(inv.Callbacks, func(ctx context.Context) {
			log = append(log, rec{cur, j})
			if ctx.Value(verifCtxTag{}) != cur {
				ctxOK = false
			}
			if cancelMode == 2 && j == 0 {
				cancelled = true
			}
		})
	}
	// clock: every reading is recorded
	var readings []int64
	last := verifInt64("now")
	verifAssume(last >= verifT0 && last <= verifT1)
	verifClockFn = func() int64 {
		t := verifInt64("now")
		verifAssume(t >= last && t <= verifT1)
		last = t
		readings = append(readings, t)
		return t
	}
	eff := skip
	if skip == 0 {
		eff = int64(15 * time.Second)
	}
	haveLast := false
	var lastRun int64
	for c := 0; c < calls; c++ {
		cur = c
		n0, l0 := len(readings), len(log)
		cancelled = cancelMode == 1
		var callCtx context.Context = context.WithValue(context.Background(), verifCtxTag{}, c)
		if cancelMode != 0 {
			callCtx = verifCallerCtx{Context: callCtx, cancelled: &cancelled, done: nil, noDeadline: true}
		}
		err := inv.Invalidate(callCtx)
		if m == 0 {
			verifReach("no callbacks")
			verifAssert("ErrNothingToInvalidate without callbacks", err != nil && errors.Is(err, ErrNothingToInvalidate))
			verifAssert("no callback ran", len(log) == l0)
			continue
		}
		verifAssert("the clock is read at least once per call", len(readings) > n0)
		if len(readings) == n0 {
			return
		}
		r1 := readings[n0]
		accept := !haveLast || r1-lastRun >= eff
		if accept {
			verifReach("accepted")
			verifAssert("accepted call returns nil", err == nil)
			verifAssert("accepted call runs every callback once", len(log) == l0+m)
			for j := 0; j < m && l0+j < len(log); j++ {
				verifAssert("callbacks run in registration order for this call", log[l0+j].call == c && log[l0+j].cb == j)
			}
			// the instant of this run is the last clock reading the call made (an implementation may read the
			// clock once for both the check and lastRun, or once for each)
			newRun := readings[len(readings)-1]
			if haveLast && eff > 0 {
				verifAssert("accepted calls are spaced at least SkipInterval apart", newRun-lastRun >= eff)
			}
			haveLast, lastRun = true, newRun
		} else {
			verifReach("rejected")
			verifAssert("rejected call reports ErrAlreadyInvalidated", err != nil && errors.Is(err, ErrAlreadyInvalidated))
			verifAssert("rejected call runs no callback", len(log) == l0)
		}
	}
	verifAssert("callbacks receive the caller's context", ctxOK)
}

func verifH_C17_Seq3() { verifC17(3) }
func verifH_C17_Seq4() { verifC17(4) }

// the same sequences over mathematical integers (no wrap-around): arithmetic the bit-vector back end
// cannot decide (e.g. a remainder by 10^9 introduced by a change) stays decidable here
func verifH_C17_Seq3_int() { verifH_C17_Seq3() }
