package cache

import (
	"context"
	"errors"
	"io"
	"net/http"
)

// ---------------------------------------------------------------------------
// C14 — HTTP transfer imports exactly what was exported and refuses mismatched types.
// The exporter's handler is driven through an in-process RoundTripper owned by the harness;
// the exporter "process" has its own gob types hash (the RoundTripper swaps the package
// variable while the handler runs). net/url, net/http plumbing and strconv are modelled by
// the executor (see stubs_used in the evidence); natively the real packages run.
// ---------------------------------------------------------------------------

type verifRespWriter struct {
	hdr  http.Header
	code int
	body []byte
}

func (w *verifRespWriter) Header() http.Header { return w.hdr }
func (w *verifRespWriter) WriteHeader(c int) {
	if w.code == 0 {
		w.code = c
	}
}

func (w *verifRespWriter) Write(p []byte) (int, error) {
	if w.code == 0 {
		w.code = http.StatusOK
	}
	w.body = append(w.body, p...)
	return len(p), nil
}

type verifBody struct {
	data   []byte
	pos    int
	cut    bool // the connection breaks before the first byte of the body is delivered
	errCut error
	closed int
}

func (b *verifBody) Read(p []byte) (int, error) {
	if b.cut {
		return 0, b.errCut
	}
	if b.pos >= len(b.data) {
		return 0, io.EOF
	}
	n := copy(p, b.data[b.pos:])
	b.pos += n
	return n, nil
}

func (b *verifBody) Close() error { b.closed++; return nil }

type verifRT struct {
	h            http.Handler
	exporterHash uint64
	failName     string // RoundTrip fails for this cache name
	cutName      string // the body of this cache name breaks
	requested    []string
	codes        []int
	bodies       []*verifBody
	errRT        error
}

func (rt *verifRT) RoundTrip(req *http.Request) (*http.Response, error) {
	name := req.URL.Query().Get("name")
	rt.requested = append(rt.requested, name)
	if name == rt.failName {
		rt.codes = append(rt.codes, -1)
		return nil, rt.errRT
	}
	w := &verifRespWriter{hdr: http.Header{}}
	saved := gobTypesHash
	gobTypesHash = rt.exporterHash // the exporter is another process with its own type registry
	rt.h.ServeHTTP(w, req)
	gobTypesHash = saved
	if w.code == 0 {
		w.code = http.StatusOK
	}
	rt.codes = append(rt.codes, w.code)
	b := &verifBody{data: w.body, cut: name == rt.cutName, errCut: io.ErrUnexpectedEOF}
	rt.bodies = append(rt.bodies, b)
	return &http.Response{StatusCode: w.code, Body: b}, nil
}

// names with characters that are reserved in a URL query: they must travel through the query unharmed
var verifC14Names = [3]string{"alpha", "be+ta", "g&amma=1"}

type verifC14Entry struct {
	present bool
	val     int
	e       int64
}

func verifC14WDR(b *verifBackend) WalkDumpRestorer {
	if m, ok := b.rw.(*ShardedMap); ok {
		return m
	}
	return b.rw.(*SyncMap)
}

func verifC14(expKind, impKind int, faults bool, nNames int) {
	verifInstallClock(verifT0, verifT1, true)
	savedHash := gobTypesHash
	defer func() { gobTypesHash = savedHash }()
	impHash := uint64(verifInt64("importerTypesHash"))
	expHash := impHash
	if verifBool("typesHashDiffers") {
		expHash = uint64(verifInt64("exporterTypesHash"))
		verifAssume(expHash != impHash)
	}
	gobTypesHash = impHash

	keys := [2]string{"k1", "key2"}
	var exp, imp HTTPTransfer
	var expB, impB [3]*verifBackend
	var content [3][2]verifC14Entry
	for i, name := range verifC14Names[:nNames] {
		if verifBool("exporterHas") {
			expB[i] = verifNewBackend(expKind, Config{ExpirationJitter: -1})
			for k := range keys {
				if i == 2 && k == 1 {
					break // the third cache holds at most one entry
				}
				c := &content[i][k]
				c.present = verifBool("present")
				if c.present {
					c.val = verifInt("val")
					c.e = verifInt64("E")
					verifAssume(c.val != 0)
					expB[i].put([]byte(keys[k]), c.val, c.e, 0)
				}
			}
			exp.AddCache(name, verifC14WDR(expB[i]))
		}
		if verifBool("importerHas") {
			impB[i] = verifNewBackend(impKind, Config{ExpirationJitter: -1})
			imp.AddCache(name, verifC14WDR(impB[i]))
		}
	}
	rt := &verifRT{h: exp.Export(), exporterHash: expHash, errRT: errors.New("connection refused"), failName: "-", cutName: "-"}
	if faults {
		switch verifChoice("fault", 3) {
		case 1:
			rt.failName = verifC14Names[verifChoice("faultName", nNames)]
		case 2:
			rt.cutName = verifC14Names[verifChoice("faultName", nNames)]
		}
	}
	imp.Transport = rt

	err := imp.Import(context.Background(), "http://exporter/debug/transfer-cache")
	verifAssert("Import returns nil", err == nil)

	for i, name := range verifC14Names[:nNames] {
		// exporter side is never modified
		if expB[i] != nil {
			n := 0
			for k := range keys {
				en, ok := expB[i].get([]byte(keys[k]))
				c := content[i][k]
				if c.present {
					n++
				}
				verifAssert("exporter's cache is left alone", ok == c.present && (!ok || (en.val == c.val && en.e == c.e)))
			}
			verifAssert("exporter's cache is left alone", expB[i].count() == n)
		}
		if impB[i] == nil {
			continue
		}
		faulty := name == rt.failName || name == rt.cutName
		switch {
		case expB[i] == nil || expHash != impHash:
			verifReach("refused: unknown name or types hash mismatch")
			verifAssert("nothing is imported when the name is unknown to the exporter or the types hash differs", impB[i].count() == 0)
		case faulty:
			verifReach("transport fault")
			// whatever arrived must be the exporter's own entries
			for k := range keys {
				en, ok := impB[i].get([]byte(keys[k]))
				c := content[i][k]
				verifAssert("after a transport fault only exporter entries are present", !ok || (c.present && en.val == c.val && en.e == c.e))
			}
		default:
			verifReach("imported")
			n := 0
			for k := range keys {
				en, ok := impB[i].get([]byte(keys[k]))
				c := content[i][k]
				if c.present {
					n++
					verifAssert("imported cache holds exactly the exporter's entries of the same name", ok && en.key == keys[k] && en.val == c.val && en.e == c.e)
				} else {
					verifAssert("imported cache holds exactly the exporter's entries of the same name", !ok)
				}
			}
			verifAssert("imported cache holds exactly the exporter's entries of the same name", impB[i].count() == n)
		}
	}
}

func verifH_C14_Sharded_Sharded() { verifC14(0, 0, false, 3) }
func verifH_C14_Sharded_Sync()    { verifC14(0, 1, false, 3) }
func verifH_C14_Sync_Sharded()    { verifC14(1, 0, false, 3) }
func verifH_C14_Sync_Sync()       { verifC14(1, 1, false, 2) }
func verifH_C14_Faults()          { verifC14(0, 0, true, 2) }
func verifH_C14_Faults3()         { verifC14(0, 1, true, 3) }

// Two transfers on the same pair of HTTPTransfer instances with type registrations in between:
// each side's types hash may have changed before the second transfer; the decision of every
// transfer must follow the hashes current at that transfer.
func verifC14TwoRounds(expKind, impKind int) {
	verifInstallClock(verifT0, verifT1, true)
	savedHash := gobTypesHash
	defer func() { gobTypesHash = savedHash }()
	var exp, imp HTTPTransfer
	expB := verifNewBackend(expKind, Config{ExpirationJitter: -1})
	val, e := verifInt("val"), verifInt64("E")
	verifAssume(val != 0)
	expB.put([]byte("k1"), val, e, 0)
	exp.AddCache("alpha", verifC14WDR(expB))
	rt := &verifRT{h: exp.Export(), errRT: errors.New("connection refused"), failName: "-", cutName: "-"}
	imp.Transport = rt
	for round := 1; round <= 2; round++ {
		impHash := uint64(verifInt64("importerTypesHash"))
		expHash := impHash
		if verifBool("typesHashDiffers") {
			expHash = uint64(verifInt64("exporterTypesHash"))
			verifAssume(expHash != impHash)
		}
		gobTypesHash = impHash
		rt.exporterHash = expHash
		impB := verifNewBackend(impKind, Config{ExpirationJitter: -1})
		imp.AddCache("alpha", verifC14WDR(impB)) // a fresh, empty cache under the same name
		err := imp.Import(context.Background(), "http://exporter/debug/transfer-cache")
		verifAssert("Import returns nil", err == nil)
		en, ok := impB.get([]byte("k1"))
		if expHash != impHash {
			verifReach("two rounds: refused")
			verifAssert("nothing is imported when the name is unknown to the exporter or the types hash differs", !ok && impB.count() == 0)
		} else {
			verifReach("two rounds: imported")
			verifAssert("imported cache holds exactly the exporter's entries of the same name", ok && en.val == val && en.e == e && impB.count() == 1)
		}
	}
}

func verifH_C14_TwoRounds() { verifC14TwoRounds(0, 1) }
