package cache

import (
	"context"
	"errors"
	"time"
)

// ---------------------------------------------------------------------------
// C01 / C02 / C04 / C05 — concurrent Gets on one Failover / FailoverOf instance.
// The backend is a harness stub (one register per key, each call one atomic step); the
// builder, the debug-log-free Failover code and the key-lock protocol are the real code.
// ---------------------------------------------------------------------------

const verifL2Keys = 2

var verifL2KeyNames = [verifL2Keys]string{"a", "b"}

type verifL2Store struct {
	state    [verifL2Keys]int // 0 absent, 1 fresh, 2 stale (acceptable), 3 too stale
	val      [verifL2Keys]int
	now      int64
	errFault error
	faultsOn bool
}

func verifKeyIndex(key []byte) int {
	if string(key) == verifL2KeyNames[0] {
		return 0
	}
	return 1
}

func (s *verifL2Store) read(ctx context.Context, key []byte) (v int, err error, expiredAt int64, expired bool) {
	k := verifKeyIndex(key)
	fault := s.faultsOn && verifBool("readFault")
	skip := SkipRead(ctx)
	verifAtomic(func() {
		switch {
		case fault:
			err = s.errFault
		case skip || s.state[k] == 0:
			err = ErrNotFound
		case s.state[k] == 1:
			v = s.val[k]
		case s.state[k] == 2:
			v, expired, expiredAt = s.val[k], true, s.now-10
		default:
			v, expired, expiredAt = s.val[k], true, s.now-1000
		}
	})
	return
}

func (s *verifL2Store) write(key []byte, v int) error {
	k := verifKeyIndex(key)
	fault := s.faultsOn && verifBool("writeFault")
	if fault {
		return s.errFault
	}
	verifAtomic(func() {
		s.state[k], s.val[k] = 1, v
	})
	return nil
}

type verifL2Backend struct{ s *verifL2Store }

func (b verifL2Backend) Read(ctx context.Context, key []byte) (interface{}, error) {
	v, err, at, expired := b.s.read(ctx, key)
	if err != nil {
		return nil, err
	}
	if expired {
		return nil, errExpired{entry: &TraitEntry{K: key, V: v, E: at}}
	}
	return v, nil
}

func (b verifL2Backend) Write(ctx context.Context, key []byte, v interface{}) error {
	return b.s.write(key, v.(int))
}

type verifL2BackendOf struct{ s *verifL2Store }

func (b verifL2BackendOf) Read(ctx context.Context, key []byte) (int, error) {
	v, err, at, expired := b.s.read(ctx, key)
	if err != nil {
		return 0, err
	}
	if expired {
		return 0, errExpiredOf[int]{entry: &TraitEntryOf[int]{K: key, V: v, E: at}}
	}
	return v, nil
}

func (b verifL2BackendOf) Write(ctx context.Context, key []byte, v int) error {
	return b.s.write(key, v)
}

// verifL_Failover: n concurrent Gets (each on a solver-chosen key).
func verifL_Failover(n int, generic bool, faults bool, sameKey bool, env bool) {
	verifL_FailoverP(n, generic, faults, sameKey, env, false)
}

// prior: one complete Get (with its background build) runs before the concurrent burst, so that
// whatever a finished Get leaves behind in the Failover is part of the initial state
func verifL_FailoverP(n int, generic bool, faults bool, sameKey bool, env bool, prior bool) {
	verifL_FailoverQ(n, generic, faults, sameKey, env, prior, false)
}

// collide: every Get uses its own key (thread t uses key t%2) and all hashing is an uninterpreted
// function, so the solver may make the two keys collide in any hash the code under test computes
func verifL_FailoverQ(n int, generic bool, faults bool, sameKey bool, env bool, prior bool, collide bool) {
	if collide {
		verifOption("hash-uf")
	}
	verifOption("deadlock")
	st := &verifL2Store{errFault: errors.New("backend fault"), faultsOn: faults}
	st.now = verifInt64("now")
	verifAssume(st.now >= verifT0 && st.now <= verifT1)
	verifClockFn = func() int64 { return st.now }
	var initState, initVal [verifL2Keys]int
	for k := 0; k < verifL2Keys; k++ {
		s := verifInt("initState")
		verifAssume(s >= 0 && s <= 3)
		st.state[k], initState[k] = s, s
		st.val[k], initVal[k] = 10+k, 10+k
	}
	// configuration flags are decided during the sequential setup (one composition per combination)
	syncRead, syncUpdate := verifChoice("syncRead", 2) == 1, verifChoice("syncUpdate", 2) == 1
	failHard, maxStaleSet := false, false
	if !prior { // the compositions with a prior Get fix these two (their state space is 16 times larger otherwise)
		failHard, maxStaleSet = verifChoice("failHard", 2) == 1, verifChoice("maxStalenessSet", 2) == 1
	}
	maxStale := time.Duration(0)
	if maxStaleSet {
		maxStale = 100
	}
	// env: the caller's context carries a deadline, or is cancel-only (context.WithCancel)
	cancelOnly := env && verifChoice("callerCtxCancelOnly", 2) == 1
	// ghost state
	var inBuild, builds, okBuilds [verifL2Keys]int
	var finishedOK, finishedErr [4]bool
	var threadKey [4]int
	var errBuild [4]error
	for t := 0; t < n; t++ {
		errBuild[t] = errors.New("build failure")
	}
	var keyLocks func() int

	builder := func(ctx context.Context, t, k int) (int, error) {
		ctxOK := ctx.Err() == nil
		verifAssert("a build never observes the caller's cancellation (cancelled only after Get returned)", ctxOK)
		verifAtomic(func() {
			inBuild[k]++
			builds[k]++
			verifAssert("at most one build per key in flight", inBuild[k] == 1)
			verifAssert("SyncRead: no build starts after a build for the key succeeded", verifOr(!syncRead, verifOr(faults, okBuilds[k] == 0)))
		})
		verifSched("build")
		ok := verifBool("builderOK")
		verifAtomic(func() {
			inBuild[k]--
			if ok {
				finishedOK[t] = true
				okBuilds[k]++
			} else {
				finishedErr[t] = true
			}
		})
		if ok {
			return 100 + t, nil
		}
		return 0, errBuild[t]
	}

	// provenance oracle, evaluated atomically when a Get returns
	checkResult := func(t, k int, v interface{}, err error) {
		isFault := err != nil && errors.Is(err, st.errFault)
		var isBuildErr [4]bool
		var isToken [4]bool
		for u := 0; u < n; u++ {
			isBuildErr[u] = err != nil && errors.Is(err, errBuild[u])
			isToken[u] = err == nil && v == 100+u
		}
		isInit := err == nil && v == initVal[k]
		verifAtomic(func() {
			if err == nil {
				verifReach("get returned a value")
				ok := verifAnd(isInit, initState[k] != 0)
				for u := 0; u < n; u++ {
					ok = verifOr(ok, verifAnd(isToken[u], verifAnd(threadKey[u] == k, finishedOK[u])))
				}
				verifAssert("a value returned with nil error was stored under the key or built for it by a finished build", ok)
			} else {
				verifReach("get returned an error")
				ok := verifAnd(isFault, faults)
				for u := 0; u < n; u++ {
					ok = verifOr(ok, verifAnd(isBuildErr[u], verifAnd(threadKey[u] == k, finishedErr[u])))
				}
				verifAssert("an error returned was produced by a builder for the key or by the backend", ok)
			}
		})
	}

	if !generic {
		f := NewFailover(FailoverConfig{Backend: verifL2Backend{st}, SyncRead: syncRead, SyncUpdate: syncUpdate, FailHard: failHard,
			MaxStaleness: maxStale, FailedUpdateTTL: -1}.Use)
		keyLocks = func() int { return len(f.keyLocks) }
		if prior {
			pk, pok := verifChoice("priorKey", verifL2Keys), verifChoice("priorBuildOK", 2) == 1
			verifBackgroundDone = func() bool { f.lock.Lock(); defer f.lock.Unlock(); return len(f.keyLocks) == 0 }
			_, _ = f.Get(context.Background(), []byte(verifL2KeyNames[pk]), func(ctx context.Context) (interface{}, error) {
				if pok {
					return 99, nil
				}
				return nil, errors.New("prior build failure")
			})
			verifRunBackground()
			for k := 0; k < verifL2Keys; k++ {
				initState[k], initVal[k] = st.state[k], st.val[k]
			}
		}
		for t := 0; t < n; t++ {
			t := t
			verifThread("get", func() {
				k := 0
				if collide {
					k = t % verifL2Keys
				} else if !sameKey {
					k = verifChoice("key", verifL2Keys)
				}
				threadKey[t] = k
				key := []byte(verifL2KeyNames[k])
				cancelled := false
				var ctx context.Context = context.Background()
				if env {
					ctx = verifCallerCtx{Context: ctx, cancelled: &cancelled, done: nil, noDeadline: cancelOnly}
				}
				v, err := f.Get(ctx, key, func(ctx context.Context) (interface{}, error) {
					r, e := builder(ctx, t, k)
					if e != nil {
						return nil, e
					}
					return r, nil
				})
				if env {
					// the caller is free to reuse its key buffer and to cancel its context once Get returned
					key[0] = verifL2KeyNames[1-k][0]
					cancelled = true
				}
				checkResult(t, k, v, err)
			})
		}
	} else {
		f := NewFailoverOf[int](FailoverConfigOf[int]{Backend: verifL2BackendOf{st}, SyncRead: syncRead, SyncUpdate: syncUpdate, FailHard: failHard,
			MaxStaleness: maxStale, FailedUpdateTTL: -1}.Use)
		keyLocks = func() int { return len(f.keyLocks) }
		if prior {
			pk, pok := verifChoice("priorKey", verifL2Keys), verifChoice("priorBuildOK", 2) == 1
			verifBackgroundDone = func() bool { f.lock.Lock(); defer f.lock.Unlock(); return len(f.keyLocks) == 0 }
			_, _ = f.Get(context.Background(), []byte(verifL2KeyNames[pk]), func(ctx context.Context) (int, error) {
				if pok {
					return 99, nil
				}
				return 0, errors.New("prior build failure")
			})
			verifRunBackground()
			for k := 0; k < verifL2Keys; k++ {
				initState[k], initVal[k] = st.state[k], st.val[k]
			}
		}
		for t := 0; t < n; t++ {
			t := t
			verifThread("get", func() {
				k := 0
				if collide {
					k = t % verifL2Keys
				} else if !sameKey {
					k = verifChoice("key", verifL2Keys)
				}
				threadKey[t] = k
				key := []byte(verifL2KeyNames[k])
				cancelled := false
				var ctx context.Context = context.Background()
				if env {
					ctx = verifCallerCtx{Context: ctx, cancelled: &cancelled, done: nil, noDeadline: cancelOnly}
				}
				v, err := f.Get(ctx, key, func(ctx context.Context) (int, error) {
					return builder(ctx, t, k)
				})
				if env {
					key[0] = verifL2KeyNames[1-k][0]
					cancelled = true
				}
				checkResult(t, k, v, err)
			})
		}
	}
	verifFinally(func() {
		verifReach("quiescence")
		verifAssert("no key lock remains at quiescence", keyLocks() == 0)
		for k := 0; k < verifL2Keys; k++ {
			verifAssert("no build in flight at quiescence", inBuild[k] == 0)
			for t := 0; t < n; t++ {
				verifAssert("a built value is stored under the key its Get was called with", verifOr(st.val[k] != 100+t, threadKey[t] == k))
			}
		}
	})
	verifRunThreads()
}

func verifL_Failover_2()           { verifL_Failover(2, false, false, false, false) }
func verifL_FailoverOf_2()         { verifL_Failover(2, true, false, false, false) }
func verifL_Failover_2_faults()    { verifL_Failover(2, false, true, true, false) }
func verifL_FailoverOf_2_faults()  { verifL_Failover(2, true, true, true, false) }
func verifL_Failover_3()           { verifL_Failover(3, false, false, true, false) }
func verifL_FailoverOf_3()         { verifL_Failover(3, true, false, true, false) }
func verifL_Failover_2_env()       { verifL_Failover(2, false, false, false, true) }
func verifL_FailoverOf_2_env()     { verifL_Failover(2, true, false, false, true) }
func verifL_Failover_1_env()       { verifL_Failover(1, false, false, false, true) }
func verifL_FailoverOf_1_env()     { verifL_Failover(1, true, false, false, true) }
func verifL_Failover_2_prior()     { verifL_FailoverP(2, false, false, false, false, true) }
func verifL_FailoverOf_2_prior()   { verifL_FailoverP(2, true, false, false, false, true) }
func verifL_Failover_2_collide()   { verifL_FailoverQ(2, false, false, false, false, false, true) }
func verifL_FailoverOf_2_collide() { verifL_FailoverQ(2, true, false, false, false, false, true) }
