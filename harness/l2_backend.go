package cache

import (
	"context"
	"time"
)

// ---------------------------------------------------------------------------
// C16 — data-race freedom of the backends: every pair of public operations on a shared backend,
// explored at the granularity of single memory accesses (no fusion), race predicate decided by
// the solver for all schedules.
// ---------------------------------------------------------------------------

const (
	verifOpRead = iota
	verifOpWrite
	verifOpWriteOther
	verifOpDelete
	verifOpExpireAll
	verifOpDeleteAll
	verifOpLen
	verifOpWalk
	verifOpCleanup
	verifOpCount
)

var verifOpNames = [...]string{"Read", "Write", "Write(other key)", "Delete", "ExpireAll", "DeleteAll", "Len", "Walk", "cleanup cycle"}

func verifBackendOp(b *verifBackend, op int, sink *int) {
	ctx := context.Background()
	switch op {
	case verifOpRead:
		_, _ = b.read(ctx, []byte("a"))
	case verifOpWrite:
		_ = b.write(ctx, []byte("a"), 7)
	case verifOpWriteOther:
		_ = b.write(ctx, []byte("b"), 8)
	case verifOpDelete:
		_ = b.del.Delete(ctx, []byte("a"))
	case verifOpExpireAll:
		b.expAll(ctx)
	case verifOpDeleteAll:
		b.delAll(ctx)
	case verifOpLen:
		*sink += b.count()
	case verifOpWalk:
		_, _ = b.walk(func(en verifEntryView) { *sink += len(en.key) })
	case verifOpCleanup:
		b.cleanup()
	}
}

// verifL_BackendPair: two threads, one operation each (the pair is chosen during setup, so
// every pair is its own composition).
func verifL_BackendPair(kind int, opsA, opsB []int, lru bool) {
	verifOption("races")
	verifOption("nofuse")
	opA := opsA[verifChoice("opA", len(opsA))]
	opB := opsB[verifChoice("opB", len(opsB))]
	verifNote("pair", verifOpNames[opA], verifOpNames[opB])
	cfg := Config{ExpirationJitter: -1}
	if lru {
		cfg.EvictionStrategy = EvictLeastRecentlyUsed
		cfg.EvictionNeeded = func() bool { return true }
	}
	b := verifNewBackend(kind, cfg)
	now := verifInt64("now")
	verifAssume(now >= verifT0 && now <= verifT1)
	verifClockFn = func() int64 { return now }
	e := verifInt64("E")
	b.put([]byte("a"), 1, e, 0)
	var sinkA, sinkB int
	verifThread(verifOpNames[opA], func() { verifBackendOp(b, opA, &sinkA) })
	verifThread(verifOpNames[opB], func() { verifBackendOp(b, opB, &sinkB) })
	verifFinally(func() { verifReach("both operations completed") })
	verifRunThreads()
}

var (
	verifOpsPoint = []int{verifOpRead, verifOpWrite, verifOpDelete, verifOpWalk}
	verifOpsBulk  = []int{verifOpExpireAll, verifOpDeleteAll, verifOpWriteOther, verifOpCleanup, verifOpLen}
	verifOpsAll   = []int{verifOpRead, verifOpWrite, verifOpWriteOther, verifOpDelete, verifOpExpireAll, verifOpDeleteAll, verifOpLen, verifOpWalk, verifOpCleanup}
)

func verifL_Race_ShardedMap()       { verifL_BackendPair(0, verifOpsPoint, verifOpsBulk, false) }
func verifL_Race_SyncMap()          { verifL_BackendPair(1, verifOpsPoint, verifOpsBulk, false) }
func verifL_Race_ShardedMapOf()     { verifL_BackendPair(2, verifOpsPoint, verifOpsBulk, false) }
func verifL_Race_ShardedMap_all()   { verifL_BackendPair(0, verifOpsAll, verifOpsAll, false) }
func verifL_Race_SyncMap_all()      { verifL_BackendPair(1, verifOpsAll, verifOpsAll, false) }
func verifL_Race_ShardedMapOf_all() { verifL_BackendPair(2, verifOpsAll, verifOpsAll, false) }
func verifL_Race_ShardedMap_lru()   { verifL_BackendPair(0, verifOpsPoint, verifOpsAll, true) }
func verifL_Race_SyncMap_lru()      { verifL_BackendPair(1, verifOpsPoint, verifOpsAll, true) }

// InvalidationIndex: AddLabels / AddCache / InvalidateByLabels concurrently.
func verifL_Race_Index() {
	verifOption("races")
	verifOption("nofuse")
	idx := NewInvalidationIndex()
	d := verifNewDeleter()
	idx.AddCache("n1", d)
	idx.AddLabels("n1", []byte("a"), "L1")
	opA := verifChoice("opA", 3)
	opB := verifChoice("opB", 3)
	op := func(o int, tag string) {
		switch o {
		case 0:
			idx.AddLabels("n2"+tag, []byte("b"), "L1") // creates a new cache name
		case 1:
			idx.AddCache("n1", d)
		case 2:
			_, _ = idx.InvalidateByLabels(context.Background(), "L1")
		}
	}
	verifThread("index op A", func() { op(opA, "x") })
	verifThread("index op B", func() { op(opB, "y") })
	verifFinally(func() { verifReach("both operations completed") })
	verifRunThreads()
}

// Two concurrent Invalidate calls under the race predicate: every access to the Invalidator's
// fields must be ordered by its mutex, also on the very first calls (SkipInterval still zero).
func verifL_Race_Invalidator() {
	verifOption("races")
	verifOption("nofuse")
	inv := &Invalidator{}
	if verifChoice("skipIntervalSet", 2) == 1 {
		inv.SkipInterval = time.Second
	}
	ran := 0
	inv.Callbacks = append(inv.Callbacks, func(ctx context.Context) { ran++ })
	now := verifInt64("now")
	verifAssume(now >= verifT0 && now <= verifT1)
	verifClockFn = func() int64 { return now }
	verifThread("Invalidate", func() { _ = inv.Invalidate(context.Background()) })
	verifThread("Invalidate", func() { _ = inv.Invalidate(context.Background()) })
	verifFinally(func() { verifReach("both operations completed") })
	verifRunThreads()
}

// Writes that carry a per-call TTL into a cache configured with UnlimitedTTL (they bump the shared
// expirations counter), against each other (different shards), against ExpireAll and against a cleanup
// cycle, under the race predicate.
func verifL_Race_TTL(kind int) {
	verifOption("races")
	verifOption("nofuse")
	opB := verifChoice("opB", 3) // 0: Write of another key with TTL, 1: ExpireAll, 2: cleanup cycle
	b := verifNewBackend(kind, Config{TimeToLive: UnlimitedTTL, ExpirationJitter: -1})
	now := verifInt64("now")
	verifAssume(now >= verifT0 && now <= verifT1)
	verifClockFn = func() int64 { return now }
	b.put([]byte("a"), 1, 0, 0)
	ctx := WithTTL(context.Background(), time.Minute, false)
	verifThread("Write with TTL", func() { _ = b.write(ctx, []byte("a"), 2) })
	verifThread([]string{"Write(other key) with TTL", "ExpireAll", "cleanup cycle"}[opB], func() {
		switch opB {
		case 0:
			_ = b.write(ctx, []byte("b"), 3) // xxhash%128: "a" 91, "b" 27 - different shards
		case 1:
			b.expAll(context.Background())
		default:
			b.cleanup()
		}
	})
	verifFinally(func() { verifReach("both operations completed") })
	verifRunThreads()
}

func verifL_Race_TTL_ShardedMap()   { verifL_Race_TTL(0) }
func verifL_Race_TTL_SyncMap()      { verifL_Race_TTL(1) }
func verifL_Race_TTL_ShardedMapOf() { verifL_Race_TTL(2) }
