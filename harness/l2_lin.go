package cache

import (
	"context"
	"errors"
)

// ---------------------------------------------------------------------------
// C08 — per-key linearizability of the backends under concurrent use.
// Two (thorough: three) operations on one key run concurrently; for every schedule the
// observed results and the final entry must equal those of SOME sequential order of the
// operations (respecting program order inside a thread) on a reference map.
// ---------------------------------------------------------------------------

const (
	linRead = iota
	linWrite
	linDelete
	linExpireAll
	linDeleteAll
	linOps
	linCleanup = linOps // a janitor cleanup cycle; only in the *_stale compositions
)

var linNames = [...]string{"Read", "Write", "Delete", "ExpireAll", "DeleteAll", "cleanup cycle"}

type linState struct {
	present bool
	val     int
	e       int // expiry code: 0 never expires, 1 expired 10ns ago, 2 expires "now" (set by ExpireAll; still a hit while the clock is frozen)
}

type linObs struct {
	kind int // 0 not found, 1 hit, 2 expired (stale value and expiry attached), 3 written, 4 deleted, 5 batch done, 9 other error
	val  int
	e    int
}

// reference semantics of one operation (clock frozen)
func linApply(op, wval int, st linState) (linObs, linState) {
	switch op {
	case linRead:
		if !st.present {
			return linObs{0, 0, 0}, st
		}
		if st.e == 1 {
			return linObs{2, st.val, 1}, st
		}
		if st.e == 2 {
			// expiry equals the frozen clock reading: a hit now, "expired at now" one tick later - both are right
			return linObs{12, st.val, 2}, st
		}
		return linObs{1, st.val, 0}, st
	case linWrite:
		return linObs{3, 0, 0}, linState{true, wval, 0}
	case linDelete:
		if st.present {
			return linObs{4, 0, 0}, linState{}
		}
		return linObs{0, 0, 0}, st
	case linExpireAll:
		if st.present {
			st.e = 2
		}
		return linObs{5, 0, 0}, st
	case linCleanup:
		// DeleteExpiredAfter is 5ns in these compositions: an entry expired 10ns ago goes, one expiring "now" stays
		if st.present && st.e == 1 {
			return linObs{5, 0, 0}, linState{}
		}
		return linObs{5, 0, 0}, st
	default:
		return linObs{5, 0, 0}, linState{}
	}
}

func linECode(e, now int64) int {
	switch e {
	case 0:
		return 0
	case now - 10:
		return 1
	case now:
		return 2
	}
	return 7
}

func linRun(b *verifBackend, op, wval int, now int64) linObs {
	ctx := context.Background()
	key := []byte("a")
	switch op {
	case linRead:
		v, err := b.read(ctx, key)
		if err == nil {
			return linObs{1, v.(int), 0}
		}
		if errors.Is(err, ErrNotFound) {
			return linObs{0, 0, 0}
		}
		// the stale value and its expiry are read from the error afterwards, as Failover does
		if b.generic {
			var ew ErrWithExpiredItemOf[int]
			if errors.As(err, &ew) {
				sv, at := ew.Value(), ew.ExpiredAt()
				if at.IsZero() {
					return linObs{2, sv, 0}
				}
				return linObs{2, sv, linECode(at.UnixNano(), now)}
			}
			return linObs{9, 0, 0}
		}
		var ew ErrWithExpiredItem
		if errors.As(err, &ew) {
			sv, at := ew.Value(), ew.ExpiredAt()
			if at.IsZero() {
				return linObs{2, sv.(int), 0}
			}
			return linObs{2, sv.(int), linECode(at.UnixNano(), now)}
		}
		return linObs{9, 0, 0}
	case linWrite:
		_ = b.write(ctx, key, wval)
		return linObs{3, 0, 0}
	case linDelete:
		if err := b.del.Delete(ctx, key); err != nil {
			return linObs{0, 0, 0}
		}
		return linObs{4, 0, 0}
	case linExpireAll:
		b.expAll(ctx)
		return linObs{5, 0, 0}
	case linCleanup:
		b.cleanup()
		return linObs{5, 0, 0}
	default:
		b.delAll(ctx)
		return linObs{5, 0, 0}
	}
}

func linEq(o linObs, x linObs) bool {
	if x.kind == 12 {
		return verifAnd(o.val == x.val, verifOr(verifAnd(o.kind == 1, o.e == 0), verifAnd(o.kind == 2, o.e == 2)))
	}
	return verifAnd(o.kind == x.kind, verifAnd(o.val == x.val, o.e == x.e))
}

func linConfig(lfu bool) Config {
	cfg := Config{TimeToLive: UnlimitedTTL, ExpirationJitter: -1, DeleteExpiredAfter: 5}
	if lfu {
		cfg.EvictionStrategy = EvictLeastFrequentlyUsed
	}
	return cfg
}

// two threads, one operation each
func verifL_Lin2(kind int, stale bool) { verifL_Lin2X(kind, stale, false) }

// cleanupOnly: one thread runs a janitor cleanup cycle, the other Read, Write or Delete (C11 under
// concurrency: a cycle removes only what is long expired at the moment it looks at it)
func verifL_Lin2X(kind int, stale bool, cleanupOnly bool) {
	nOps := linOps
	if stale {
		nOps = linOps + 1 // + cleanup cycle
	}
	var opA, opB int
	if cleanupOnly {
		opA, opB = linCleanup, verifChoice("opB", 3)
	} else {
		opA, opB = verifChoice("opA", nOps), verifChoice("opB", nOps)
	}
	present := verifChoice("present", 2) == 1
	lfu := false
	if stale {
		// the pre-stored entry has already expired and the cache keeps usage counters (LFU)
		lfu = verifChoice("lfu", 2) == 1
	}
	// known finding (SyncMap only): the janitor checks an entry and then deletes BY KEY, a Write that
	// completes in between is deleted (sync.Map has no CompareAndDelete before go1.20)
	verifClass("syncmap_cleanup_vs_write", kind == 1 && ((opA == linCleanup && opB == linWrite) || (opA == linWrite && opB == linCleanup)))
	b := verifNewBackend(kind, linConfig(lfu))
	b.trait.expirationsSet = 1 // dated entries exist: the janitor's scan is enabled
	now := verifInt64("now")
	verifAssume(now >= verifT0 && now <= verifT1)
	verifClockFn = func() int64 { return now }
	init := linState{}
	if present {
		if stale {
			b.put([]byte("a"), 1, now-10, 0)
			init = linState{true, 1, 1}
		} else {
			b.put([]byte("a"), 1, 0, 0)
			init = linState{true, 1, 0}
		}
	}
	var obsA, obsB linObs
	verifThread(linNames[opA], func() {
		o := linRun(b, opA, 10, now)
		verifAtomic(func() { obsA = o })
	})
	verifThread(linNames[opB], func() {
		o := linRun(b, opB, 20, now)
		verifAtomic(func() { obsB = o })
	})
	verifFinally(func() {
		verifReach("both operations completed")
		en, ok := b.get([]byte("a"))
		fval, fe := 0, 0
		if ok {
			fval, fe = en.val.(int), linECode(en.e, now)
		}
		match := func(first, second int, wf, ws int, swap bool) bool {
			o1, s1 := linApply(first, wf, init)
			o2, s2 := linApply(second, ws, s1)
			a, bb := o1, o2
			if swap {
				a, bb = o2, o1
			}
			sv, se := 0, 0
			if s2.present {
				sv, se = s2.val, s2.e
			}
			return verifAnd(verifAnd(linEq(obsA, a), linEq(obsB, bb)),
				verifAnd(ok == s2.present, verifAnd(fval == sv, fe == se)))
		}
		verifAssert("results and final entry equal those of some sequential order of the two operations",
			verifOr(match(opA, opB, 10, 20, false), match(opB, opA, 20, 10, true)))
	})
	verifRunThreads()
}

func verifL_Lin2_ShardedMap()         { verifL_Lin2(0, false) }
func verifL_Lin2_SyncMap()            { verifL_Lin2(1, false) }
func verifL_Lin2_ShardedMapOf()       { verifL_Lin2(2, false) }
func verifL_Cleanup_ShardedMap()      { verifL_Lin2X(0, true, true) }
func verifL_Cleanup_ShardedMapOf()    { verifL_Lin2X(2, true, true) }
func verifL_Lin2_ShardedMap_stale()   { verifL_Lin2(0, true) }
func verifL_Lin2_SyncMap_stale()      { verifL_Lin2(1, true) }
func verifL_Lin2_ShardedMapOf_stale() { verifL_Lin2(2, true) }

// three operations: thread A performs two in program order, thread B one
func verifL_Lin3(kind int) {
	opA1 := verifChoice("opA1", 3) // Read / Write / Delete
	opA2 := verifChoice("opA2", 3)
	opB := verifChoice("opB", linOps)
	b := verifNewBackend(kind, Config{TimeToLive: UnlimitedTTL, ExpirationJitter: -1})
	now := verifInt64("now")
	verifAssume(now >= verifT0 && now <= verifT1)
	verifClockFn = func() int64 { return now }
	b.put([]byte("a"), 1, 0, 0)
	init := linState{true, 1, 0}
	var obsA1, obsA2, obsB linObs
	verifThread("A", func() {
		o1 := linRun(b, opA1, 10, now)
		o2 := linRun(b, opA2, 11, now)
		verifAtomic(func() { obsA1, obsA2 = o1, o2 })
	})
	verifThread("B", func() {
		o := linRun(b, opB, 20, now)
		verifAtomic(func() { obsB = o })
	})
	verifFinally(func() {
		verifReach("all operations completed")
		en, ok := b.get([]byte("a"))
		fval, fe := 0, 0
		if ok {
			fval, fe = en.val.(int), linECode(en.e, now)
		}
		// pos: position of B's operation in the order (0: first, 1: between, 2: last)
		match := func(pos int) bool {
			st := init
			var eA1, eA2, eB linObs
			if pos == 0 {
				eB, st = linApply(opB, 20, st)
			}
			eA1, st = linApply(opA1, 10, st)
			if pos == 1 {
				eB, st = linApply(opB, 20, st)
			}
			eA2, st = linApply(opA2, 11, st)
			if pos == 2 {
				eB, st = linApply(opB, 20, st)
			}
			sv, se := 0, 0
			if st.present {
				sv, se = st.val, st.e
			}
			return verifAnd(verifAnd(linEq(obsA1, eA1), verifAnd(linEq(obsA2, eA2), linEq(obsB, eB))),
				verifAnd(ok == st.present, verifAnd(fval == sv, fe == se)))
		}
		verifAssert("results and final entry equal those of some sequential order respecting program order",
			verifOr(match(0), verifOr(match(1), match(2))))
	})
	verifRunThreads()
}

func verifL_Lin3_ShardedMap()   { verifL_Lin3(0) }
func verifL_Lin3_SyncMap()      { verifL_Lin3(1) }
func verifL_Lin3_ShardedMapOf() { verifL_Lin3(2) }

// Walk against a concurrent operation on another key: "a" (never touched) must be visited
// exactly once; the other key is visited at most once, only with a value that was stored,
// and in agreement with some position of the operation before or after its visit point.
func verifL_LinWalk(kind int) {
	opB := verifChoice("opB", 3) // Read / Write / Delete on the other key
	present := verifChoice("present", 2) == 1
	sameShard := verifChoice("sameShard", 2) == 1
	other := []byte("b") // xxhash("b")%128 = 27, xxhash("a")%128 = 91
	if sameShard {
		other = []byte("k289") // xxhash%128 = 91
	}
	b := verifNewBackend(kind, Config{TimeToLive: UnlimitedTTL, ExpirationJitter: -1})
	now := verifInt64("now")
	verifAssume(now >= verifT0 && now <= verifT1)
	verifClockFn = func() int64 { return now }
	b.put([]byte("a"), 1, 0, 0)
	if present {
		b.put(other, 2, 0, 0)
	}
	var nA, nO, valO, total int
	var walkErr bool
	verifThread("Walk", func() {
		na, no, vo := 0, 0, 0
		n, err := b.walk(func(en verifEntryView) {
			if en.key == "a" {
				na++
			} else {
				no++
				vo = en.val.(int)
			}
		})
		verifAtomic(func() { nA, nO, valO, total, walkErr = na, no, vo, n, err != nil })
	})
	verifThread(linNames[opB], func() {
		ctx := context.Background()
		switch opB {
		case linRead:
			_, _ = b.read(ctx, other)
		case linWrite:
			_ = b.write(ctx, other, 20)
		default:
			_ = b.del.Delete(ctx, other)
		}
	})
	verifFinally(func() {
		verifReach("walk completed")
		verifAssert("Walk visits an entry that exists unchanged for the whole walk exactly once", verifAnd(nA == 1, !walkErr))
		verifAssert("Walk's count equals the number of callbacks", total == nA+nO)
		okO := nO == 0 || nO == 1
		if nO == 1 {
			okO = verifOr(verifAnd(present, valO == 2), verifAnd(opB == linWrite, valO == 20))
		}
		verifAssert("Walk reports the concurrently used key at most once and only with a stored value", okO)
		if opB == linRead {
			verifAssert("Walk visits every entry when nothing changes", (nO == 1) == present)
		}
		if opB == linWrite && present {
			verifAssert("an overwritten entry is still visited once", nO == 1)
		}
		if opB == linDelete && !present {
			verifAssert("a key never stored is not reported", nO == 0)
		}
	})
	verifRunThreads()
}

func verifL_LinWalk_ShardedMap()   { verifL_LinWalk(0) }
func verifL_LinWalk_SyncMap()      { verifL_LinWalk(1) }
func verifL_LinWalk_ShardedMapOf() { verifL_LinWalk(2) }

// Two different keys that may share their 64-bit hash (all hashing is an uninterpreted function, both
// keys are placed in shard 5): an operation on key "a" runs against a Write of key "b". Whatever the
// schedule and whether or not the hashes collide, the completed Write of "b" must be there at the end
// and the operation on "a" must never see or remove "b"'s entry.
func verifL_Collide(kind int) {
	verifOption("hash-uf")
	opA := verifChoice("opA", 2) // 0: Read(a), 1: Delete(a)
	b := verifNewBackend(kind, Config{TimeToLive: UnlimitedTTL, ExpirationJitter: -1})
	now := verifInt64("now")
	verifAssume(now >= verifT0 && now <= verifT1)
	verifClockFn = func() int64 { return now }
	ka, kb := []byte("a"), []byte("b")
	verifAssume(verifHash(ka)%shards == 5 && verifHash(kb)%shards == 5)
	b.put(ka, 1, 0, 0)
	ctx := context.Background()
	readKind, readVal := -1, 0
	verifThread([]string{"Read(a)", "Delete(a)"}[opA], func() {
		if opA == 0 {
			v, err := b.read(ctx, ka)
			k, rv := 0, 0
			if err == nil {
				k, rv = 1, v.(int)
			}
			verifAtomic(func() { readKind, readVal = k, rv })
		} else {
			_ = b.del.Delete(ctx, ka)
		}
	})
	verifThread("Write(b)", func() { _ = b.write(ctx, kb, 20) })
	verifFinally(func() {
		verifReach("collide: both operations completed")
		en, ok := b.get(kb)
		verifAssert("a completed Write of another key survives an operation on a key with the same hash", ok && en.val.(int) == 20 && en.key == "b")
		if opA == 0 {
			verifAssert("Read never returns the value of a different key", readKind != 1 || readVal == 1)
		}
	})
	verifRunThreads()
}

func verifL_Collide_ShardedMap()   { verifL_Collide(0) }
func verifL_Collide_ShardedMapOf() { verifL_Collide(2) }
