package cache

import (
	"context"
	"errors"
	"time"
)

// C17 (concurrent part): concurrent Invalidate calls never overlap their callbacks, accepted
// calls are spaced by SkipInterval, rejected ones run nothing.
func verifL_C17(n int) {
	verifOption("deadlock")
	skip := verifInt64("skipInterval")
	inv := &Invalidator{SkipInterval: time.Duration(skip)}
	eff := skip
	if skip == 0 {
		eff = int64(15 * time.Second)
	}
	const m = 2
	last := verifInt64("now")
	verifAssume(last >= verifT0 && last <= verifT1)
	curCall := -1
	var cbDone [4]int
	var accepted, rejected [4]bool
	haveLast := false
	var prevRun int64
	for j := 0; j < m; j++ {
		j := j
		inv.Callbacks = append(inv.Callbacks, func(ctx context.Context) {
			c := ctx.Value(verifCtxTag{}).(int)
			verifAtomic(func() {
				verifAssert("callbacks of different accepted calls never interleave", verifOr(curCall == -1, curCall == c))
				verifAssert("callbacks run once each, in registration order", cbDone[c] == j)
				cbDone[c]++
				curCall = c
				if j == 0 {
					// the instant this accepted call starts to run = the current time (the latest clock reading anybody
					// made), observed without advancing the clock
					lr := last
					verifAssert("accepted calls are spaced at least SkipInterval apart", verifOr(eff <= 0, verifOr(!haveLast, lr-prevRun >= eff)))
					haveLast, prevRun = true, lr
				}
				if j == m-1 {
					curCall = -1
				}
			})
		})
	}
	verifClockFn = func() int64 {
		var t int64
		verifAtomic(func() {
			t = verifInt64("now")
			verifAssume(t >= last && t <= verifT1)
			last = t
		})
		return t
	}
	for c := 0; c < n; c++ {
		c := c
		verifThread("invalidate", func() {
			err := inv.Invalidate(context.WithValue(context.Background(), verifCtxTag{}, c))
			ok := err == nil
			isRej := err != nil && errors.Is(err, ErrAlreadyInvalidated)
			verifAtomic(func() {
				if ok {
					verifReach("accepted")
					accepted[c] = true
					verifAssert("accepted call ran every callback", cbDone[c] == m)
				} else {
					verifReach("rejected")
					rejected[c] = true
					verifAssert("rejected call reports ErrAlreadyInvalidated", isRej)
					verifAssert("rejected call ran no callback", cbDone[c] == 0)
				}
			})
		})
	}
	verifFinally(func() {
		any := false
		for c := 0; c < n; c++ {
			any = verifOr(any, accepted[c])
			verifAssert("every call returned", verifOr(accepted[c], rejected[c]))
		}
		verifAssert("at least one of concurrent calls is accepted", any)
	})
	verifRunThreads()
}

func verifL_C17_2() { verifL_C17(2) }
func verifL_C17_3() { verifL_C17(3) }
