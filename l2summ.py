import json,sys
d=json.load(open(sys.argv[1]))
if d.get('error'): print('ERROR',d['error'])
for r in d.get('l2') or []:
    print(r['name'],{k:v for k,v in r.items() if k in ('configs','fixpoint_iterations','paths','threads','edges','steps','shared_locations','wall_s','bmc_solver_s','bmc_queries','explore_queries','error')})
    for c in r.get('configs_info') or []: print('  ',c)
    for q in r['queries'] or []:
        if q['result']!='unsat' or q['seconds']>5 or '-q' in sys.argv: print('  Q',q['config'],q['kind'],q['label'][:90],q['result'],round(q['seconds'],1))
    print('  asserts',{k:(v['OK'],v['Violated'],v['Unknown']) for k,v in (r['asserts'] or {}).items()})
    print('  reach',r['reach'])
    for v in (r['violations'] or [])[:4]:
        print('  V',v['label'],'known=',v.get('known'),v['model'])
        if '-t' in sys.argv: print('     '+'\n     '.join(v['notes'][:80]))
