#!/usr/bin/env python3
# writes seeded/<id>/meta.json from run.json (produced by seedtest.sh) + the hand-written "needs" text
import json, sys, os
NEEDS = {
 "C03-e": "Failover only: recentlyFailed moved into doBuild, so a cached failure falls into the 'build failed, serve stale' path: stale (even too-stale) value returned with nil error although a failure is cached (needs failure cache on, cached failure, expired entry)",
 "C06-e": "recentlyFailed reads the failure cache with SkipRead stripped from the context: a Get with SkipRead after a failed build is answered with the remembered error instead of rebuilding",
 "C09-e": "sharded backends' Delete compares the key under the read lock and deletes by hash under the write lock without re-checking: a colliding key written in between is removed (needs an xxhash64 collision and that interleaving)",
 "C10-e": "PrepareRead tests E > 0 instead of E != 0: an expiry instant before 1970 (negative E, TTL below about -57 years) is served as never expiring",
 "C11-e": "merged memory-overflow check lost the 'limit == 0 means disabled' guard for HeapInUseSoftLimit: with only SysMemSoftLimit configured every cleanup cycle evicts although no limit is exceeded",
 "C12-e": "LRU timestamp only stored when at least 1s newer than the recorded one: an entry served again within a second keeps its old rank and is evicted before entries served earlier",
 "C17-e": "Invalidate checks ctx.Err() before each callback (after lastRun was updated): an accepted call with a cancelled context runs no or only some callbacks and returns the context error",
 "C18-e": "TraitOf.PrepareRead fast path for never-expiring entries under the default strategy returns before counting cache_hit (generic backend, UnlimitedTTL)",
 "C01-d": "Get's release closure captures the caller's key slice instead of the private copy: a finished background build deletes the key lock of whatever key the caller's buffer now holds (needs background mode, stale value, caller rewriting the buffer; overlapping builds need a third Get)",
 "C02-d": "FailoverOf waiter branch returns the zero value read alongside the expiry error instead of the stale value (needs a build in flight and a waiter that reads an expired, servable entry)",
 "C04-d": "ctxSync skips detachedContext when the caller's context has no deadline: a cancel-only context cancelled after Get returned reaches the background build",
 "C05-d": "a build failure is not written to the failure cache when the caller's context is Done at that moment (needs a synchronous build whose caller gave up)",
 "C07-d": "ShardedMap.Write keeps the caller's key slice when it overwrites an existing key: mutating the buffer afterwards changes the stored key",
 "C08-d": "sharded backends' deleteExpired made two-phase (collect under RLock, delete by hash under Lock without re-checking): a Write completing in between is deleted by the janitor",
 "C13-d": "Restore skips records that are already expired: stale entries (kept for Failover) are lost in transfer and the count is short",
 "C14-d": "types hash memoised per HTTPTransfer with sync.Once: a type registered after the first transfer is ignored by later transfers of that instance",
 "C15-d": "ErrNotFound from one deleter ends the loop over the deleters of that name: caches registered later keep the key and the key is dropped from the index",
 "C16-d": "Invalidator.Invalidate writes the SkipInterval default before taking the mutex: races between the first concurrent calls (needs SkipInterval left at zero)",
 "C03-c": "FailoverOf only: ctxSync decides on 'has stale value' instead of the read error, so an entry expired beyond MaxStaleness is rebuilt in the background and the too-stale value is served with nil error (needs MaxStaleness>0, entry beyond it, SyncUpdate=false)",
 "C06-c": "detachedContext embeds the parent context: Deadline() of the caller leaks into the background build (needs stale value, SyncUpdate=false, caller context with a deadline)",
 "C08-c": "sharded backends with LRU/LFU: Write updates an existing entry in place; a concurrent Read of an expired entry that already holds the pointer reports the new value as stale (needs LFU/LRU, expired entry, overlapping Read and Write)",
 "C09-c": "Failover key locks keyed by xxhash64(key) instead of the key string: two different keys with the same hash share a build lock and a waiter gets the other key's value/error (needs a hash collision and overlapping Gets)",
 "C10-c": "Trait.TTL returns 0 when the config is UnlimitedTTL and the context carries a TTL (inverted condition): per-call TTLs are ignored on unlimited caches",
 "C11-c": "deleteExpired of the sharded backends replaces the shard's map when deleted == number of survivors: fresh/never-expiring entries sharing a shard with as many long-expired ones are lost (needs two keys in one shard)",
 "C12-c": "heap/sys overflow checks merged: with exactly one memory limit configured the unset one is compared against 0 and every cycle evicts (needs exactly one of HeapInUseSoftLimit/SysMemSoftLimit set, not breached)",
 "C14-c": "Import appends '&name='+name to a pre-encoded query: cache names with query-reserved characters (+ & = % space) reach the exporter as a different name (nothing imported, or another cache's entries imported)",
 "C17-c": "elapsed time rounded to seconds before the SkipInterval comparison: a call in the last half second of the interval is accepted (needs SkipInterval >= 500ms and that timing)",
 "C18-c": "cache_build counted after buildFunc returns instead of in a defer: a builder that panics (caller recovers) is not counted",
 "C01-b": "MaxStaleness > 0, entry expired for longer than MaxStaleness, and a second Get arriving while the first is inside its synchronous build: the waiter falls through and builds too (overlapping builds)",
 "C02-a": "key-lock objects recycled through a free list: a waiter still holding the old lock object reads val/err of the NEXT build of another key (needs 3 Gets / 2 keys with a specific interleaving)",
 "C02-b": "SyncRead=true, the owner's re-read under the key lock hits a fresh value (written by a previous owner) while a waiter is parked on the lock: the owner returns without publishing keyLock.val, the waiter returns (nil, nil)",
 "C04-b": "SyncUpdate=false, failure cache enabled, a stale value and a cached build failure: the owner returns early with its deferred unlock disabled and no background goroutine started; the key lock stays in keyLocks forever",
 "C05-b": "FailoverOf only, SyncRead=true: a Get that read a miss before taking the lock becomes owner after another build succeeded and builds again without re-reading",
 "C07-b": "config TimeToLive=UnlimitedTTL together with a per-call TTL passed by context (WithTTL): the context TTL is ignored and the entry never expires",
 "C13-b": "SyncMap.Restore of a record whose expiry is 0 (never expires): clamped to 'now' as if it were in the past, i.e. the entry comes back expiring immediately",
 "C15-b": "deleter failure + a not-yet-deleted key carried by two of the requested labels + a later invalidation by only one of those labels (map iteration order decides which label loses the key)",
 "C16-b": "ShardedMapOf.DeleteAll iterates the shard map without taking the shard lock: races with any concurrent Write/Delete of the same shard",
}
for sid in sys.argv[1:]:
    d = os.path.join("/verif/seeded", sid)
    r = json.load(open(os.path.join(d, "run.json")))
    m = {"seed": sid, "breaks_property": r["property"], "needs_to_manifest": NEEDS[sid],
         "origin": "written by an independent sub-agent that saw only the property text and a scratch worktree of /repo",
         "confirmed_by_me": {"existing_suite_with_change": r["suite_with_change"].strip(), "demo_with_change": r["demo_with_change"].strip(),
                             "demo_without_change": r["demo_without_change"].strip(),
                             "how": "seedtest.sh: scratch git worktree of /repo HEAD under /tmp (removed afterwards): demo test without the patch, git apply patch.diff, demo test with the patch, full suite with the patch"},
         "check_run": {"command": "./check %s %s (patch applied to /repo with git apply, undone with git checkout -- .)" % (r["property"], r["tier"]),
                       "exit": r["check_exit"], "seconds": r["check_seconds"], "output_head": r["check_output_head"]},
         "detected": r["check_exit"] == 1}
    json.dump(m, open(os.path.join(d, "meta.json"), "w"), indent=1)
    print(sid, "detected" if m["detected"] else "NOT detected (exit %d)" % r["check_exit"])
