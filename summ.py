import json,sys
d=json.load(open(sys.argv[1]))
if d.get('error'): print('ERROR',d['error'])
for h in d['harnesses']:
    print(h['name'], 'paths',h['paths'],h['ends'],'q',h['queries'],'unk',h['unknown'],'solver_s',round(h['solver_s'],2),'wall',round(h['wall_s'],2),'ERR' if h.get('error') else '',h.get('error',''))
    for l,a in h['asserts'].items():
        if a['Violated'] or a['Unknown']: print('   !',l,a['OK'],a['Violated'],a['Unknown'])
    print('  reach',h['reach'])
    seen=set()
    for v in (h['violations'] or []):
        k=(v['label'],tuple(v['classes'] or []),v.get('known',''))
        if k in seen: continue
        seen.add(k)
        print('  V',v['label'],v['classes'],'known='+v.get('known',''),v.get('msg','')[:200],v['model'])
    print('  nviol',len(h['violations'] or []))
    if '-v' in sys.argv:
        print('  fns',[(f['name'].split('cache.')[-1],f['touched'],f['blocks']) for f in h['functions']])
        print('  stubs',h['stubs'])
